"""
./check --replay <replays/<ID>/<tier>-seed<N>-<i>.json>

Re-runs the check that produced the witness with the same tier and seed (every
check is deterministic for a given VERIF_SEED and PYTHONHASHSEED=0, which
./check sets) and reports whether a violation with the same mechanism occurs
again on the current tree.  Exit 1 + a VIOLATION line if it does, 0 if the
witness no longer reproduces, 2 if the file cannot be interpreted.
"""
from __future__ import annotations

import importlib
import json
import os
import re
import sys
from pathlib import Path


def main(argv) -> int:
    if not argv:
        print('usage: check --replay <replay.json>')
        return 2
    path = Path(argv[0])
    try:
        w = json.loads(path.read_text())
    except Exception as e:
        print(f'cannot read {path}: {e}')
        return 2
    prop = w.get('property') or path.parent.name
    m = re.match(r'(quick|thorough)-seed(\d+)-\d+\.json$', path.name)
    if not m:
        print(f'{path.name}: not a replay file name (<tier>-seed<N>-<i>.json)')
        return 2
    tier, seed = m.group(1), int(m.group(2))
    mech = w.get('mechanism')
    print(f'replaying {prop} tier={tier} seed={seed}')
    print('witness mechanism:', json.dumps(mech))
    print('witness problem  :', str(w.get('problem'))[:300])
    for key in ('context', 'args', 'ctx', 'transform', 'rewrite', 'strategy', 'options', 'expression'):
        if key in w:
            print(f'witness {key:9}:', str(w[key])[:300])
    if w.get('source'):
        print('witness program  :\n' + str(w['source'])[:3000])
    os.environ['VERIF_SEED'] = str(seed)
    try:
        mod = importlib.import_module(f'vf.checks.{prop.lower()}')
    except ModuleNotFoundError as e:
        print(f'no check for {prop}: {e}')
        return 2
    saved = path.read_text()
    rc = mod.main(tier)
    # the re-run rewrote the replay directory for this tier / seed: look for the same mechanism
    again = []
    for p in sorted(path.parent.glob(f'{tier}-seed{seed}-*.json')):
        try:
            w2 = json.loads(p.read_text())
        except Exception:
            continue
        if mech is None or w2.get('mechanism') == mech:
            again.append(p)
    if not path.exists():
        # keep the witness that was asked for
        path.write_text(saved)
    if again:
        print(f'REPRODUCED: {len(again)} witness(es) with the same mechanism')
        print(f'VIOLATION property={prop} replay={again[0]}')
        return 1
    print(f'NOT REPRODUCED on the current tree (check exit code {rc})')
    return 0


if __name__ == '__main__':
    sys.exit(main(sys.argv[1:]))
