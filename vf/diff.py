"""
Differential monitor for program transformations (C07, C08, C09, ...):
original program vs transformed program, observed at Function.__call__ on the
same (deep-copied) arguments, compared structurally.
"""
from __future__ import annotations

import random
import traceback

from .common import Result
from .gen import prog as genprog
from .gen import run as genrun

REFUSALS = ('TransformDeclined', 'TransformReferenceError')


class Case:
    """one generated program, loaded"""

    def __init__(self, program, mod):
        self.program = program
        self.mod = mod
        self.f = mod.f


def run_differential(res: Result, prop: str, rng: random.Random, nprograms: int, profile: dict,
                     transforms, ninputs: int = 8, ctx_choices=(None,), min_changed: float = 0.3,
                     input_hook=None, accept_exc=(), tag: str = 'd', watchdog: float = 5.0,
                     transformed_precondition=None, strict_ok: bool = False, directed=()):
    """
    transforms(case, rng) -> list of (label, thunk) where thunk() returns the
    transformed Function (or raises a refusal).

    Counts: programs, transformed variants, variants whose text changed,
    comparisons.  Records violations on res.
    """
    import fpy2 as fp
    changed = 0
    variants = 0
    with genrun.Scratch(prefix=f'vf-{prop.lower()}-') as work:
        for pi in range(nprograms):
            # a shard that already holds plenty of witnesses (or keeps hitting the
            # watchdog) stops early: the verdict cannot change any more
            if len(res.violations) >= 25:
                res.count('stopped_early_violations')
                break
            if res.counters.get('transform_timeout', 0) + res.counters.get('transformed_timeout', 0) >= 12:
                res.count('stopped_early_timeouts')
                break
            g = genprog.Gen(rng, profile)
            try:
                # `directed`: fixed (source, argument types) programs run ahead of the generated ones
                if pi < len(directed):
                    p = genprog.Program(directed[pi][0], tuple(directed[pi][1]), {}, 'R', [], {'directed'})
                    res.count('directed_programs')
                else:
                    p = g.program()
            except Exception:
                res.count('generator_error')
                continue
            try:
                mod = genprog.load_module(p.source, work, tag)
            except Exception as e:
                res.count(f'rejected:{type(e).__name__}')
                continue
            case = Case(p, mod)
            res.count('programs')
            # reference results
            inputs = []
            for _ in range(ninputs * 3):
                if len(inputs) >= ninputs:
                    break
                args = input_hook(rng, p) if input_hook else genprog.gen_args(rng, p)
                ctx = rng.choice(ctx_choices)
                r = genrun.call(case.f, args, ctx=ctx, timeout=watchdog)
                if r[0] == 'ok':
                    inputs.append((args, ctx, r[1]))
                elif r[0] == 'timeout':
                    res.count('orig_timeout')
                else:
                    res.count('orig_raises')
            if not inputs:
                res.count('programs_without_returning_input')
                genprog.unload(mod)
                continue
            try:
                tlist = transforms(case, rng)
            except Exception as e:
                res.count(f'transform_setup_error:{type(e).__name__}')
                genprog.unload(mod)
                continue
            orig_text = case.f.format()
            for entry in tlist:
                label, thunk = entry[0], entry[1]
                opts = entry[2] if len(entry) > 2 else {}
                out = genrun.guarded(thunk, timeout=8.0)
                if out[0] == 'timeout':
                    res.count('transform_timeout')
                    continue
                if out[0] == 'exc':
                    e = out[1]
                    en = type(e).__name__
                    if en in REFUSALS or en in accept_exc:
                        res.count(f'refused:{en}')
                        continue
                    res.evaluations += 1
                    res.violate({'property': prop, 'transform': label, 'problem': f'transformation raised {en}: {str(e)[:300]}',
                                 'source': p.source, 'traceback': ''.join(traceback.format_exception(e))[-1500:],
                                 'mechanism': {'kind': 'transform_crash', 'exception': en, 'transform': label.split('[')[0]}})
                    continue
                g2 = out[1]
                variants += 1
                try:
                    new_text = g2.format()
                except Exception:
                    new_text = '<unformattable>'
                if new_text != orig_text:
                    changed += 1
                for (args, ctx, want) in inputs:
                    if transformed_precondition is not None and not transformed_precondition(label, args):
                        res.count('precondition_false')
                        continue
                    if 'orig_ctx' in opts:
                        # "evaluated in the corresponding way": the original under the pinned
                        # context, the transformed program called without one
                        r0 = genrun.call(case.f, args, ctx=opts['orig_ctx'], timeout=watchdog)
                        if r0[0] != 'ok':
                            res.count('orig_raises_under_pinned_ctx')
                            continue
                        want = r0[1]
                        ctx = None
                    r = genrun.call(g2, args, ctx=ctx, timeout=watchdog * 2)
                    res.evaluations += 1
                    if r[0] == 'timeout':
                        res.count('transformed_timeout')
                        # wall clock says nothing on a loaded machine: compare logical run lengths instead
                        octx = opts['orig_ctx'] if 'orig_ctx' in opts else ctx
                        s0 = genrun.count_steps(case.f, args, ctx=octx)
                        if s0[0] != 'ok':
                            res.count('steps_original_unmeasured')
                            continue
                        s1 = genrun.count_steps(g2, args, ctx=ctx, cap=100 * s0[1] + 200_000)
                        if s1[0] != 'limit':
                            res.count('steps_transformed_within_budget' if s1[0] != 'timeout' else 'steps_transformed_unmeasured')
                            continue
                        res.violate({'property': prop, 'transform': label, 'args': repr(args), 'ctx': repr(ctx), 'original_result': genrun.show(want),
                                     'transformed_result': f'still running after {s1[1]} interpreter steps; the original returns after {s0[1]}',
                                     'problem': 'transformed program does not return where the original does (more than 100x its steps)',
                                     'source': p.source, 'transformed': new_text,
                                     'mechanism': {'kind': 'does_not_return', 'transform': label.split('[')[0],
                                                   'derived_iter_body_writes': 'derived_iter_body_writes' in p.features,
                                               # F74: fp.isnormal reads the context attached to its operand, which a folded literal lacks
                                               'isnormal_without_context': bool(r[0] == 'exc' and 'fp.isnormal' in p.source
                                                                                and 'without a context cannot be normalized' in str(r[2]))}})
                        break
                    if r[0] == 'ok' and r[1] == want:
                        if new_text != orig_text:
                            res.nontrivial += 1
                        continue
                    if strict_ok and 'STRICT' in label and r[0] == 'exc' and r[1] in ('AssertionError', 'ValueError'):
                        res.count('strict_precondition_failed')
                        continue
                    got = genrun.show(r[1]) if r[0] == 'ok' else f'raised {r[1]}: {r[2]}'
                    res.violate({'property': prop, 'transform': label, 'args': repr(args), 'ctx': repr(ctx),
                                 'original_result': genrun.show(want), 'transformed_result': got,
                                 'problem': 'transformed program returns a different value' if r[0] == 'ok' else 'transformed program raises',
                                 'source': p.source, 'transformed': new_text,
                                 'mechanism': {'kind': 'value' if r[0] == 'ok' else 'raises', 'transform': label.split('[')[0],
                                               'exception': r[1] if r[0] == 'exc' else None,
                                               'derived_iter_body_writes': 'derived_iter_body_writes' in p.features,
                                               # F74: fp.isnormal reads the context attached to its operand, which a folded literal lacks
                                               'isnormal_without_context': bool(r[0] == 'exc' and 'fp.isnormal' in p.source
                                                                                and 'without a context cannot be normalized' in str(r[2]))}})
                    break
            if pi < 2:
                res.sample({'program': p.source[-700:], 'inputs': len(inputs), 'transforms': [t[0] for t in tlist][:8]})
            for f in p.features:
                res.extra.setdefault('features', {})
                res.extra['features'][f] = res.extra['features'].get(f, 0) + 1
            genprog.unload(mod)
    res.counters['variants'] = res.counters.get('variants', 0) + variants
    res.counters['variants_changed'] = res.counters.get('variants_changed', 0) + changed
    return variants, changed
