"""
Post-condition monitor on the elementary functions and constants of `fpy2.ops`
(C03): the result must be the true value rounded once by the context.
"""
from __future__ import annotations

from fractions import Fraction

import fpy2
from fpy2 import ops as _ops
from fpy2.number import Float, REAL

from ..oracle import arith, rnd, ziv
from ..oracle.describe import Unsupported, describe, to_val, val_str
from .roundmon import same_val

UNARY_FNS = ['exp', 'exp2', 'exp10', 'expm1', 'log', 'log2', 'log10', 'log1p', 'sin', 'cos', 'tan',
             'asin', 'acos', 'atan', 'sinh', 'cosh', 'tanh', 'asinh', 'acosh', 'atanh',
             'erf', 'erfc', 'tgamma', 'lgamma']
BINARY_FNS = ['atan2', 'pow']
CONSTS = list(ziv.CONSTS)


class FnMonitor:
    def __init__(self, prop='C03'):
        self.prop = prop
        self.calls = 0
        self.checked = 0
        self.nontrivial = 0
        self.inconclusive = 0
        self.exact_cases = 0
        self.max_bits = 0
        self.hard: list = []            # (bits needed, op, args, ctx text)
        self.skipped: dict[str, int] = {}
        self.by_op: dict[str, int] = {}
        self.violations: list[dict] = []
        self._orig = {}
        self._fd_cache = {}
        self._const_cache = {}
        self._seen = set()
        self.tag = None
        self.max_violations = 300

    def install(self):
        import fpy2.interpret.byte as byte
        for name in UNARY_FNS + BINARY_FNS + CONSTS:
            orig = getattr(_ops, name)
            self._orig[name] = orig
            w = self._wrap(name, orig)
            setattr(_ops, name, w)
            for tbl in (byte._NULLARY_TABLE, byte._UNARY_TABLE, byte._BINARY_TABLE):
                for k, v in list(tbl.items()):
                    if v is orig:
                        tbl[k] = w
        return self

    def uninstall(self):
        import fpy2.interpret.byte as byte
        for name, orig in self._orig.items():
            w = getattr(_ops, name)
            setattr(_ops, name, orig)
            for tbl in (byte._NULLARY_TABLE, byte._UNARY_TABLE, byte._BINARY_TABLE):
                for k, v in list(tbl.items()):
                    if v is w:
                        tbl[k] = orig
        self._orig.clear()

    def _wrap(self, name, orig):
        mon = self

        def wrapped(*args, ctx=REAL):
            try:
                r = orig(*args, ctx=ctx)
            except Exception as e:
                mon.observe(name, args, ctx, None, e)
                raise
            mon.observe(name, args, ctx, r, None)
            return r
        wrapped.__name__ = name
        wrapped.__wrapped__ = orig
        return wrapped

    def _skip(self, why):
        self.skipped[why] = self.skipped.get(why, 0) + 1

    def fd_of(self, ctx):
        ent = self._fd_cache.get(id(ctx))
        if ent is not None and ent[0] is ctx:
            return ent[1]
        try:
            fd = describe(ctx)
        except Unsupported as e:
            fd = e
        if len(self._fd_cache) > 20000:
            self._fd_cache.clear()
        self._fd_cache[id(ctx)] = (ctx, fd)
        return fd

    def observe(self, name, args, ctx, result, exc):
        self.calls += 1
        nexp = 0 if name in CONSTS else (2 if name in BINARY_FNS else 1)
        if len(args) != nexp or ctx is None:
            self._skip('arity/ctx')
            return
        fd = self.fd_of(ctx)
        if isinstance(fd, Exception):
            self._skip(f'ctx:{fd}')
            return
        try:
            vals = [to_val(a) for a in args]
        except Unsupported as e:
            self._skip(f'operand:{e}')
            return
        if any(v[0] == 'fin' and (v[2].denominator & (v[2].denominator - 1)) for v in vals):
            self._skip('non-dyadic operand')
            return
        if fd.real:
            # no transcendental value is a Float: only exact cases may return
            ex = ziv.exact_value(name, vals) if vals else None
            if exc is None and ex is None:
                self._viol(name, ctx, fd, args, vals, None, None, result, exc, 'returned a value under REAL for an irrational result')
            self._skip('REAL')
            return
        if name == 'pow' and vals[1][0] == 'fin' and vals[1][2].denominator == 1 and abs(vals[1][2]) <= 64:
            self._skip('pow integer exponent (C02)')
            return
        try:
            exp, info = self.expected(name, vals, fd)
        except ziv.Inconclusive:
            self.inconclusive += 1
            return
        except Exception as e:          # oracle failure is never a verdict
            self._skip(f'oracle error {type(e).__name__}')
            return
        self.checked += 1
        self.by_op[name] = self.by_op.get(name, 0) + 1
        self._cur_ctx = ctx
        if info.get('bits'):
            self.max_bits = max(self.max_bits, info['bits'])
            if info['bits'] >= 384 and len(self.hard) < 200:
                self.hard.append((info['bits'], name, [val_str(v) for v in vals], self.tag, args, ctx))
        if info.get('exact'):
            self.exact_cases += 1
        key = hash((name, id(ctx), tuple(vals)))
        if info.get('irrational') and key not in self._seen:
            if len(self._seen) < 3_000_000:
                self._seen.add(key)
            self.nontrivial += 1
        problem = self.judge(fd, exp, info, result, exc)
        if problem:
            self._viol(name, ctx, fd, args, vals, exp, info, result, exc, problem)

    def expected(self, name, vals, fd):
        if name in CONSTS:
            enc = self._const_cache.get(name)
            if enc is None:
                enc = self._const_cache[name] = ziv.constant_enclosure(name)
            a = arith.surrogate(fd, enc.cmp_abs, hint_log2=0)
            return rnd.expected_round(fd, ('fin', False, a)), {'irrational': True, 'bits': enc.max_w}
        if all(v[0] == 'fin' for v in vals):
            ex = ziv.exact_value(name, vals)
            if ex is not None:
                e = rnd.expected_round(fd, ex)
                return e, {'exact': True, 'ideal': ex}
        enc = ziv.function_enclosure(name, vals)
        if enc.special is not None:
            # NaN / infinity / zero straight from the IEEE special-case tables (as implemented by MPFR)
            return rnd.expected_round(fd, enc.special), {'special': True, 'ideal': enc.special}
        neg = enc.sign()
        if enc.special is not None:
            return rnd.expected_round(fd, enc.special), {'special': True, 'ideal': enc.special}
        lo = min(abs(enc.lo), abs(enc.hi))
        hint = rnd.ilog2(lo) if lo > 0 else 0
        a = arith.surrogate(fd, enc.cmp_abs, hint_log2=hint)
        return rnd.expected_round(fd, ('fin', neg, a)), {'irrational': True, 'bits': enc.max_w}

    def judge(self, fd, exp, info, result, exc):
        if exc is not None:
            en = type(exc).__name__
            if exp.raises and en in exp.raises:
                return None
            if exp.also_raises and en in exp.also_raises:
                return None
            return f'raised {en}: {exc}'
        if exp.raises and not exp.values:
            return f'expected {exp.raises} but returned {result!r}'
        if not isinstance(result, Float):
            return f'result is {type(result).__name__}'
        rv = to_val(result)
        if not any(same_val(rv, v) for v in exp.values):
            return 'wrong value'
        if info.get('irrational'):
            if not result.inexact:
                return 'inexact flag is False for an irrational result'
            if exp.overflow is not None and bool(result.overflow) != exp.overflow:
                return f'overflow flag is {result.overflow}, expected {exp.overflow}'
        elif info.get('exact'):
            if exp.inexact is not None and bool(result.inexact) != exp.inexact:
                return f'inexact flag is {result.inexact}, expected {exp.inexact} (exactly rational result)'
        return None

    def _viol(self, name, ctx, fd, args, vals, exp, info, result, exc, problem):
        if len(self.violations) >= self.max_violations:
            return
        self.violations.append({
            'property': self.prop, 'op': name, 'problem': problem, 'context': repr(ctx), 'tag': self.tag,
            'args': [repr(a) for a in args], 'arg_values': [val_str(v) for v in vals],
            'result': repr(result), 'exception': f'{type(exc).__name__}: {exc}' if exc is not None else None,
            'expected': [val_str(v) for v in exp.values] if exp is not None else None,
            'oracle': {k: (val_str(v) if k == 'ideal' else v) for k, v in (info or {}).items()},
            'mechanism': {'op': name, 'family': fd.family, 'mode': fd.mode,
                          'kind': 'flag' if 'flag' in problem else ('raise' if exc is not None else 'value')},
        })

    def snapshot(self):
        return {'calls': self.calls, 'checked': self.checked, 'nontrivial': self.nontrivial,
                'inconclusive': self.inconclusive, 'exact_cases': self.exact_cases, 'max_bits': self.max_bits,
                'skipped': dict(self.skipped), 'by_op': dict(self.by_op)}
