"""
Post-condition monitor on every concrete `Context.round` / `round_at`.

Installed from the harness by patching the class attributes (no repository
edit); every caller -- the sweeps of C01, `fpy2.ops`, the interpreter, the
repository's own tests -- is observed.  The condition *records* and never
raises, so the observed code runs exactly as without the monitor.
"""
from __future__ import annotations

from fractions import Fraction

from fpy2.number import (
    EFloatContext, ExpContext, FixedContext, IEEEContext, MPBFixedContext,
    MPBFloatContext, MPFixedContext, MPFloatContext, MPSFloatContext,
    SMFixedContext, Float,
)
from fpy2.number.context.real import RealContext

from ..oracle import rnd
from ..oracle.describe import Unsupported, describe, to_val, val_str

CLASSES = [
    MPFloatContext, MPSFloatContext, MPBFloatContext, EFloatContext,
    MPFixedContext, MPBFixedContext, ExpContext, RealContext,
]
# IEEEContext / FixedContext / SMFixedContext inherit round from these.


def same_val(a, b) -> bool:
    if a[0] != b[0]:
        return False
    if a[0] == 'nan':
        return True
    if a[0] == 'inf':
        return a[1] == b[1]
    return a[1] == b[1] and a[2] == b[2]


class RoundMonitor:
    def __init__(self):
        self.calls = 0
        self.checked = 0
        self.nontrivial = 0
        self.skipped: dict[str, int] = {}
        self.violations: list[dict] = []
        self.by_family: dict[str, int] = {}
        self.by_outcome: dict[str, int] = {}
        self._fd_cache: dict[int, tuple] = {}
        self._orig: list[tuple] = []
        self.current_tag = None          # set by drivers for witness context
        self._seen: set = set()          # distinct non-trivial (context, operand value, n)
        self._key = None
        self.max_violations = 300

    # -- installation -----------------------------------------------------
    def install(self):
        mon = self
        for cls in CLASSES:
            for name in ('round', 'round_at'):
                if name not in cls.__dict__:
                    continue
                orig = cls.__dict__[name]
                self._orig.append((cls, name, orig))
                setattr(cls, name, self._wrap(orig, name))
        return self

    def uninstall(self):
        for cls, name, orig in self._orig:
            setattr(cls, name, orig)
        self._orig.clear()

    def _wrap(self, orig, name):
        mon = self
        if name == 'round':
            def round(self, x, *, exact: bool = False):
                try:
                    r = orig(self, x, exact=exact)
                except Exception as e:
                    mon.observe(self, x, None, exact, None, e)
                    raise
                mon.observe(self, x, None, exact, r, None)
                return r
            round.__wrapped__ = orig
            return round
        else:
            def round_at(self, x, n, *, exact: bool = False):
                try:
                    r = orig(self, x, n, exact=exact)
                except Exception as e:
                    mon.observe(self, x, n, exact, None, e)
                    raise
                mon.observe(self, x, n, exact, r, None)
                return r
            round_at.__wrapped__ = orig
            return round_at

    # -- the post-condition ---------------------------------------------------
    def _skip(self, why):
        self.skipped[why] = self.skipped.get(why, 0) + 1

    def fd_of(self, ctx):
        ent = self._fd_cache.get(id(ctx))
        if ent is not None and ent[0] is ctx:
            return ent[1]
        try:
            fd = describe(ctx)
        except Unsupported as e:
            fd = e
        if len(self._fd_cache) > 20000:
            self._fd_cache.clear()
        self._fd_cache[id(ctx)] = (ctx, fd)
        return fd

    def observe(self, ctx, x, n, exact, result, exc):
        self.calls += 1
        fd = self.fd_of(ctx)
        if isinstance(fd, Exception):
            self._skip(f'ctx:{fd}')
            return
        if n is not None and (not isinstance(n, int) or fd.real):
            self._skip('round_at on real / non-int n')
            return
        try:
            xv = to_val(x)
        except Unsupported as e:
            self._skip(f'operand:{e}')
            return
        if fd.real and xv[0] == 'fin' and (xv[2].denominator & (xv[2].denominator - 1)) != 0:
            # non-dyadic under REAL: no Float can hold it; an error is the only sound outcome
            if exc is None:
                self._viol(ctx, fd, x, xv, n, exact, result, exc, None, 'non-dyadic rational returned as a Float under REAL')
            else:
                self._skip('REAL non-dyadic raised')
            return
        exp = rnd.expected_round(fd, xv, n)
        self.checked += 1
        self._key = hash((id(ctx), xv, n, exact))
        self.by_family[fd.family] = self.by_family.get(fd.family, 0) + 1
        problem = self.judge(ctx, fd, xv, exact, exp, result, exc)
        if problem:
            self._viol(ctx, fd, x, xv, n, exact, result, exc, exp, problem)

    def judge(self, ctx, fd, xv, exact, exp, result, exc):
        # exact=True: an inexact or overflowing rounding must raise ValueError
        if exact and (exp.inexact or exp.overflow) and not (exp.raises and not exp.values):
            self._outcome('exact-raise')
            if exc is None:
                return 'exact=True but an inexact result was returned'
            if type(exc).__name__ not in ('ValueError', 'OverflowError'):
                return f'exact=True raised {type(exc).__name__}'
            return None
        if exc is not None:
            name = type(exc).__name__
            if exact and exp.raises and 'OverflowError' in exp.raises and name == 'ValueError':
                self._outcome('exact-raise')
                return None
            if exact and name == 'ValueError' and xv[0] == 'fin' and exp.values \
                    and not any(same_val(xv, v) for v in exp.values):
                # exact=True and the value would change (e.g. a finite operand that
                # can only become NaN): refusing is the documented behaviour
                self._outcome('exact-raise')
                return None
            if exp.raises and name in exp.raises:
                self._outcome('raise-ok')
                return None
            if exp.also_raises and name in exp.also_raises:
                self._outcome('raise-ok')
                return None
            return f'raised {name}: {exc}'
        if exp.raises and not exp.values:
            return f'expected {exp.raises} but returned'
        if not isinstance(result, Float):
            return f'result is {type(result).__name__}, not Float'
        rv = to_val(result)
        if not any(same_val(rv, v) for v in exp.values):
            return 'wrong value'
        # classify for evidence
        if xv[0] != 'fin':
            self._outcome('special')
        elif exp.overflow:
            self._outcome('overflow')
            self._nontrivial()
        elif exp.inexact:
            self._outcome('inexact')
            self._nontrivial()
        else:
            self._outcome('exact')
        # flags
        if exp.inexact is not None and bool(result.inexact) != exp.inexact:
            return f'inexact flag is {result.inexact}, expected {exp.inexact}'
        if exp.overflow is not None and bool(result.overflow) != exp.overflow:
            return f'overflow flag is {result.overflow}, expected {exp.overflow}'
        # membership, both by the oracle and by the context's own test
        if not rnd.member(fd, rv):
            return 'result is not a member of the format (oracle)'
        try:
            rep = ctx.representable_under(result)
        except Exception as e:
            return f'representable_under raised {type(e).__name__}: {e}'
        if not rep:
            return 'representable_under(result) is False'
        try:
            bare = Float(x=result, ctx=None)
            if not ctx.representable_under(bare):
                return 'representable_under(result without ctx) is False'
        except Exception as e:
            return f'representable_under raised {type(e).__name__}: {e}'
        return None

    def _nontrivial(self):
        if self._key not in self._seen:
            if len(self._seen) < 5_000_000:
                self._seen.add(self._key)
            self.nontrivial += 1

    def _outcome(self, k):
        self.by_outcome[k] = self.by_outcome.get(k, 0) + 1

    def _viol(self, ctx, fd, x, xv, n, exact, result, exc, exp, problem):
        if len(self.violations) >= self.max_violations:
            self.violations_dropped = getattr(self, 'violations_dropped', 0) + 1
            return
        flag = None
        if problem.startswith('inexact flag'):
            flag = 'inexact'
        elif problem.startswith('overflow flag'):
            flag = 'overflow'
        kind = 'flag' if flag else ('raise' if exc is not None or 'expected' in problem else 'value')
        self.violations.append({
            'property': 'C01',
            'problem': problem,
            'context': repr(ctx),
            'tag': self.current_tag,
            'operand': repr(x),
            'operand_value': val_str(xv),
            'n': n,
            'exact': exact,
            'result': repr(result) if result is not None else None,
            'result_value': val_str(to_val(result)) if isinstance(result, Float) else None,
            'exception': f'{type(exc).__name__}: {exc}' if exc is not None else None,
            'expected': [val_str(v) for v in exp.values] if exp is not None else None,
            'expected_flags': {'inexact': exp.inexact, 'overflow': exp.overflow} if exp is not None else None,
            'mechanism': {
                'family': fd.family,
                'overflow_mode': fd.overflow,
                'kind': kind,
                'flag': flag,
                'overflowing': bool(exp.overflow) if exp is not None else None,
            },
        })

    def snapshot(self) -> dict:
        return {
            'calls': self.calls, 'checked': self.checked, 'nontrivial': self.nontrivial,
            'skipped': dict(self.skipped), 'by_family': dict(self.by_family),
            'by_outcome': dict(self.by_outcome),
        }
