"""
Per-expression tracing of the real interpreter.

`TracingCompiler` subclasses fpy2's BytecodeCompiler (nothing in /repo is
edited): every compiled expression is wrapped in `__vf_rec(i, <expr>)`, every
binding (assignment, indexed assignment, loop target, `with ... as`) reports
`__vf_bind(i, value)` / iterates through `__vf_iter(i, iterable)`.  The hooks
are transparent (they return the value / yield the elements unchanged) and call
an observer object:

    observer.on_expr(expr_node, value)
    observer.on_bind(stmt_node, value)          # value about to be bound to stmt's target(s)
    observer.on_iter_bind(for_stmt, element)    # each iteration of a for loop
"""
from __future__ import annotations

import ast as pyast


def make_tracing_compiler():
    from fpy2.interpret.byte import BytecodeCompiler
    from fpy2.ast.fpyast import Expr

    class TracingCompiler(BytecodeCompiler):
        def __init__(self, func, env, observer):
            super().__init__(func, env)
            self._nodes = []
            self._obs = observer
            self.foreign_vals['__vf_rec'] = self._rec
            self.foreign_vals['__vf_bind'] = self._bind
            self.foreign_vals['__vf_iter'] = self._iter

        # -- hooks ---------------------------------------------------------------------------
        def _rec(self, i, v):
            self._obs.on_expr(self._nodes[i], v)
            return v

        def _bind(self, i, v):
            self._obs.on_bind(self._nodes[i], v)
            return v

        def _iter(self, i, it):
            node = self._nodes[i]
            for x in it:
                self._obs.on_iter_bind(node, x)
                yield x

        def _idx(self, node):
            self._nodes.append(node)
            return len(self._nodes) - 1

        def _wrap(self, hook, node, py):
            attrs = {'lineno': getattr(py, 'lineno', 1), 'col_offset': getattr(py, 'col_offset', 0),
                     'end_lineno': getattr(py, 'end_lineno', 1), 'end_col_offset': getattr(py, 'end_col_offset', 0)}
            return pyast.Call(func=pyast.Name(id=hook, ctx=pyast.Load(), **attrs),
                              args=[pyast.Constant(value=self._idx(node), kind=None, **attrs), py], keywords=[], **attrs)

        # -- expressions ------------------------------------------------------------------------
        def _visit_expr(self, e, ctx):
            py = super()._visit_expr(e, ctx)
            if isinstance(py, pyast.expr):
                return self._wrap('__vf_rec', e, py)
            return py

        # -- bindings ---------------------------------------------------------------------------
        def _visit_assign(self, stmt, ctx):
            a = super()._visit_assign(stmt, ctx)
            a.value = self._wrap('__vf_bind', stmt, a.value)
            return a

        def _visit_indexed_assign(self, stmt, ctx):
            a = super()._visit_indexed_assign(stmt, ctx)
            a.value = self._wrap('__vf_bind', stmt, a.value)
            return a

        def _visit_for(self, stmt, ctx):
            f = super()._visit_for(stmt, ctx)
            f.iter = self._wrap('__vf_iter', stmt, f.iter)
            return f

        def _visit_context(self, stmt, ctx):
            t = super()._visit_context(stmt, ctx)
            # try: <tmp> = __ctx__; __ctx__ = REAL; <target> = __ctx__ = <new context>; body
            set_stmt = t.body[2]
            set_stmt.value = self._wrap('__vf_bind', stmt, set_stmt.value)
            return t

    return TracingCompiler


def run_traced(func, args, ctx, observer):
    """compile func (an fpy2 Function) with tracing and call it like BytecodeInterpreter.eval does"""
    from fpy2.interpret import get_default_interpreter
    from fpy2.interpret.value import to_value, from_value
    TC = make_tracing_compiler()
    comp = TC(func.ast, func.env, observer)
    fn = comp.compile()
    rt = get_default_interpreter()
    c = rt._func_ctx(func.ast, ctx)
    vals = tuple(to_value(a) for a in args)
    observer.on_enter(func.ast, vals)
    res = fn(*vals, __ctx__=c)
    return from_value(res)
