"""
Post-condition monitor on `fpy2.ops.<op>` (C02): the returned value and flags
must be "the exact result rounded once by ctx".

Installed by replacing the functions in `fpy2.ops` *and* the entries of the
bytecode interpreter's operator tables (which bind the functions at import), so
interpreted programs are observed too.  The parser's tables are keyed by the
original function objects and are left alone.
"""
from __future__ import annotations

from fractions import Fraction

import fpy2
from fpy2 import ops as _ops
from fpy2.number import Float, REAL
from fpy2.number.context.real import RealContext

from ..oracle import arith, rnd
from ..oracle.describe import Unsupported, describe, to_val, val_str
from .roundmon import same_val

UNARY = {
    'neg': arith.neg, 'fabs': arith.fabs, 'sqrt': arith.sqrt, 'cbrt': arith.cbrt,
    'ceil': lambda a: arith.rint(a, 'ceil'), 'floor': lambda a: arith.rint(a, 'floor'),
    'trunc': lambda a: arith.rint(a, 'trunc'), 'roundint': lambda a: arith.rint(a, 'roundint'),
}
BINARY = {
    'add': arith.add, 'sub': arith.sub, 'mul': arith.mul, 'div': arith.div,
    'copysign': arith.copysign, 'fdim': arith.fdim, 'hypot': arith.hypot,
    'fmod': arith.fmod, 'remainder': arith.remainder, 'mod': arith.pymod,
}
RINT = ('ceil', 'floor', 'trunc', 'roundint')


def _is_dyadic(v: Fraction) -> bool:
    return v.denominator & (v.denominator - 1) == 0


class OpsMonitor:
    def __init__(self, prop='C02'):
        self.prop = prop
        self.calls = 0
        self.checked = 0
        self.nontrivial = 0
        self.skipped: dict[str, int] = {}
        self.by_op: dict[str, int] = {}
        self.violations: list[dict] = []
        self._orig = {}
        self._fd_cache = {}
        self._seen = set()
        self.tag = None
        self.max_violations = 300

    def install(self):
        import fpy2.interpret.byte as byte
        names = list(UNARY) + list(BINARY) + ['fma', 'pow', 'nearbyint']
        for name in names:
            orig = getattr(_ops, name)
            self._orig[name] = orig
            w = self._wrap(name, orig)
            setattr(_ops, name, w)
            for tbl in (byte._UNARY_TABLE, byte._BINARY_TABLE, byte._TERNARY_TABLE):
                for k, v in list(tbl.items()):
                    if v is orig:
                        tbl[k] = w
            for mod in (fpy2, fpy2.libraries.base):
                if getattr(mod, name, None) is orig:
                    pass    # keep: the parser identifies operations by these objects
        return self

    def uninstall(self):
        import fpy2.interpret.byte as byte
        for name, orig in self._orig.items():
            w = getattr(_ops, name)
            setattr(_ops, name, orig)
            for tbl in (byte._UNARY_TABLE, byte._BINARY_TABLE, byte._TERNARY_TABLE):
                for k, v in list(tbl.items()):
                    if v is w:
                        tbl[k] = orig
        self._orig.clear()

    def _wrap(self, name, orig):
        mon = self

        def wrapped(*args, ctx=REAL):
            # positional ctx
            try:
                r = orig(*args, ctx=ctx)
            except Exception as e:
                mon.observe(name, args, ctx, None, e)
                raise
            mon.observe(name, args, ctx, r, None)
            return r
        wrapped.__name__ = name
        wrapped.__wrapped__ = orig
        wrapped.__doc__ = orig.__doc__
        return wrapped

    def _skip(self, why):
        self.skipped[why] = self.skipped.get(why, 0) + 1

    def fd_of(self, ctx):
        ent = self._fd_cache.get(id(ctx))
        if ent is not None and ent[0] is ctx:
            return ent[1]
        try:
            fd = describe(ctx)
        except Unsupported as e:
            fd = e
        if len(self._fd_cache) > 20000:
            self._fd_cache.clear()
        self._fd_cache[id(ctx)] = (ctx, fd)
        return fd

    # -- the post-condition ---------------------------------------------------
    def observe(self, name, args, ctx, result, exc):
        self.calls += 1
        n_expected = 3 if name == 'fma' else (1 if name in UNARY or name == 'nearbyint' else 2)
        if len(args) != n_expected:
            # ctx passed positionally or wrong arity: not judged
            self._skip('arity')
            return
        if ctx is None:
            self._skip('ctx=None')
            return
        fd = self.fd_of(ctx)
        if isinstance(fd, Exception):
            self._skip(f'ctx:{fd}')
            return
        try:
            vals = [to_val(a) for a in args]
        except Unsupported as e:
            self._skip(f'operand:{e}')
            return
        if isinstance(exc, TypeError) and 'Expected' in str(exc) and 'Context' in str(exc):
            self._skip('bad ctx type')
            return
        nondyadic = any(v[0] == 'fin' and not _is_dyadic(v[2]) for v in vals)

        # ideal result
        open_zero = False
        if name in UNARY:
            ideal = UNARY[name](vals[0])
        elif name in BINARY:
            ideal = BINARY[name](vals[0], vals[1])
        elif name == 'fma':
            ideal = arith.fma(*vals)
        elif name == 'nearbyint':
            ideal = None
        elif name == 'pow':
            e = vals[1]
            if e[0] != 'fin' or e[2].denominator != 1:
                self._skip('pow: non-integer exponent (C03)')
                return
            n = int(arith.sval(e))
            if abs(n) > 64:
                self._skip('pow: large exponent')
                return
            ideal = arith.powi(vals[0], n)
        else:
            self._skip('unknown op')
            return
        if ideal is None and name != 'nearbyint':
            self._skip('not judged (sign of NaN)')
            return

        notes = {}
        if ideal is not None and isinstance(ideal[-1], dict):
            notes = ideal[-1]
            ideal = ideal[:-1]

        # expected outcome after one rounding
        if name == 'nearbyint':
            if fd.real:
                exp = None
            else:
                exp = rnd.expected_round(fd, vals[0], -1)
        elif ideal[0] == 'irr':
            if fd.real:
                exp = None       # irrational under REAL: only NotImplementedError / error is sound
            else:
                a = arith.surrogate(fd, ideal[2])
                exp = rnd.expected_round(fd, ('fin', ideal[1], a))
        else:
            if fd.real and ideal[0] == 'fin':
                exp = rnd.Expect([ideal], inexact=False, overflow=False)
            else:
                exp = rnd.expected_round(fd, ideal)
        self.checked += 1
        self.by_op[name] = self.by_op.get(name, 0) + 1

        if notes.get('zero_sign_open') or (notes.get('zero_sign_open_rtn') and fd.mode == rnd.RTN):
            open_zero = True

        problem = self._judge(name, fd, ctx, vals, ideal, exp, notes, open_zero, nondyadic, result, exc, args)
        key = hash((name, id(ctx), tuple(vals)))
        if exp is not None and (exp.inexact or exp.overflow or (ideal is not None and ideal[0] in ('irr',))):
            if key not in self._seen:
                if len(self._seen) < 4_000_000:
                    self._seen.add(key)
                self.nontrivial += 1
        if problem:
            self._viol(name, ctx, fd, args, vals, ideal, exp, result, exc, problem)

    def _judge(self, name, fd, ctx, vals, ideal, exp, notes, open_zero, nondyadic, result, exc, args):
        if exc is not None:
            en = type(exc).__name__
            if en == 'NotImplementedError':
                # offered nowhere: fine for non-dyadic operands and under REAL
                if nondyadic or fd.real:
                    return None
                return f'raised NotImplementedError for dyadic operands under a rounding context'
            if exp is None:
                return None if en in ('ValueError', 'RuntimeError', 'NotImplementedError') else f'raised {en}: {exc}'
            if exp.raises and en in exp.raises:
                return None
            if exp.also_raises and en in exp.also_raises:
                return None
            if fd.real and en == 'ValueError' and nondyadic:
                return None
            return f'raised {en}: {exc}'
        if exp is None:
            return 'returned a value where no exact Float exists (irrational under REAL)'
        if exp.raises and not exp.values:
            return f'expected {exp.raises} but returned {result!r}'
        # the result
        if isinstance(result, Fraction):
            if not fd.real:
                return 'returned a Fraction under a rounding context'
            rv = ('fin', result < 0, abs(result))
        elif isinstance(result, Float):
            rv = to_val(result)
        else:
            return f'result is {type(result).__name__}'
        ok = any(same_val(rv, v) for v in exp.values)
        if not ok and open_zero and rv[0] == 'fin' and rv[2] == 0 and any(v[0] == 'fin' and v[2] == 0 for v in exp.values):
            ok = True
        if not ok and fd.real and isinstance(result, Fraction) and any(v[0] == 'fin' and v[2] == rv[2] and (v[2] != 0 and v[1] == rv[1]) for v in exp.values):
            ok = True
        if not ok:
            return 'wrong value'
        if isinstance(result, Float) and not fd.real:
            if name in RINT:
                # documented: inexact iff the result differs from the operand
                x = vals[0]
                if rv[0] == 'fin' and x[0] == 'fin':
                    # ... or the integer itself had to be rounded (e.g. saturated)
                    want = (rv[2] != x[2]) or (x[2] != 0 and rv[1] != x[1]) or bool(exp.inexact)
                    if bool(result.inexact) != want:
                        return f'inexact flag is {result.inexact}, expected {want}'
            else:
                if exp.inexact is not None and ideal is not None and ideal[0] in ('fin', 'irr'):
                    want = exp.inexact or ideal[0] == 'irr'
                    if bool(result.inexact) != want:
                        return f'inexact flag is {result.inexact}, expected {want}'
                if exp.overflow is not None and ideal is not None and ideal[0] in ('fin', 'irr'):
                    if bool(result.overflow) != exp.overflow:
                        return f'overflow flag is {result.overflow}, expected {exp.overflow}'
            if result.isnan and all(v[0] != 'nan' for v in vals) and ideal is not None and ideal[0] == 'nan':
                if not result.invalid:
                    return 'invalid flag not set for an invalid operation'
            if notes.get('divzero') and result.isinf and not result.divzero:
                return 'divzero flag not set for a division of a finite non-zero value by zero'
        return None

    def _viol(self, name, ctx, fd, args, vals, ideal, exp, result, exc, problem):
        if len(self.violations) >= self.max_violations:
            return
        self.violations.append({
            'property': self.prop, 'op': name, 'problem': problem,
            'context': repr(ctx), 'tag': self.tag,
            'args': [repr(a) for a in args],
            'arg_values': [val_str(v) for v in vals],
            'ideal': (val_str(ideal) if ideal is not None and ideal[0] != 'irr' else ('irrational' if ideal is not None else None)),
            'result': repr(result), 'exception': f'{type(exc).__name__}: {exc}' if exc is not None else None,
            'expected': [val_str(v) for v in exp.values] if exp is not None else None,
            'mechanism': {'op': name, 'family': fd.family, 'kind': ('flag' if 'flag' in problem else ('raise' if exc is not None else 'value')),
                          'mode': fd.mode},
        })

    def snapshot(self):
        return {'calls': self.calls, 'checked': self.checked, 'nontrivial': self.nontrivial,
                'skipped': dict(self.skipped), 'by_op': dict(self.by_op)}
