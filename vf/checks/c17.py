"""
C17 -- stochastic rounding picks a neighbour with the exact probability.

The random source is a scripted generator object: for one operand every one of
the 2^k values is returned in turn, so the whole distribution is counted, not
sampled.  Checked per (context, operand):
  * every result is the lower or the upper neighbour (oracle 1.1);
  * a representable operand is returned unchanged for every draw;
  * the same (operand, bits) gives the same result twice;
  * #draws that leave the lower neighbour == offset in the gap in units of
    2^-k, rounded by the context's mode;
  * exactly one draw of width k per rounding of a finite non-zero operand.
"""
from __future__ import annotations

import random
from fractions import Fraction

from ..common import Result, finish, run_shards, seed as get_seed, shard_main

PROP = 'C17'
RULE = ('one evaluation = one (context, operand) pair whose full 2^k-draw distribution was executed and counted; '
        'non-trivial = distinct pairs whose operand is not representable (both neighbours reachable)')


class ScriptedRandom(random.Random):
    """random.Random whose getrandbits returns the scripted value; records calls."""
    def __init__(self):
        super().__init__(0)
        self.value = 0
        self.calls = []

    def getrandbits(self, k):
        self.calls.append(k)
        return self.value & ((1 << k) - 1) if k > 0 else 0


class ScriptedGenerator:
    """numpy.random.Generator-like stub: only `.integers(low, high)`."""
    def __init__(self):
        self.value = 0
        self.calls = []

    def integers(self, low, high=None, *a, **kw):
        if high is None:
            low, high = 0, low
        self.calls.append((int(high) - int(low)).bit_length() - 1)
        return self.value % int(high)


def _contexts(tier):
    quick = tier == 'quick'
    ks = (1, 2, 3) if quick else (1, 2, 3, 4, 5)
    modes = ['RNE', 'RNA', 'RTP', 'RTN', 'RTZ', 'RAZ', 'RTO', 'RTE']
    fams = []
    for p in ((1, 2, 3) if quick else (1, 2, 3, 4)):
        fams.append(('mp', f'MPFloatContext({p}, RM.{{rm}}, {{k}}, rng=RNG)'))
        for emin in ((-1, 1) if quick else (-2, 0, 1)):
            fams.append(('mps', f'MPSFloatContext({p}, {emin}, RM.{{rm}}, {{k}}, rng=RNG)'))
            fams.append(('mpb', f'MPBFloatContext({p}, {emin}, RealFloat(m={(1 << p) - 1}, exp={emin + 2 - p + 1}), RM.{{rm}}, OV.OVERFLOW, {{k}}, rng=RNG)'))
            fams.append(('mpb', f'MPBFloatContext({p}, {emin}, RealFloat(m={(1 << p) - 1}, exp={emin + 2 - p + 1}), RM.{{rm}}, OV.SATURATE, {{k}}, rng=RNG)'))
    for es, nbits in (((2, 4), (3, 5), (2, 5)) if quick else ((2, 4), (3, 5), (2, 5), (3, 6), (4, 7), (1, 3))):
        fams.append(('ieee', f'IEEEContext({es}, {nbits}, RM.{{rm}}, OV.OVERFLOW, {{k}}, rng=RNG)'))
    fams.append(('efloat', 'EFloatContext(2, 5, False, EFloatNanKind.MAX_VAL, 1, RM.{rm}, OV.SATURATE, {k}, rng=RNG)'))
    fams.append(('efloat', 'EFloatContext(3, 5, True, EFloatNanKind.NEG_ZERO, -1, RM.{rm}, OV.OVERFLOW, {k}, rng=RNG)'))
    for nmin in ((-2, 0) if quick else (-3, -1, 0, 2)):
        fams.append(('mpfixed', f'MPFixedContext({nmin}, RM.{{rm}}, {{k}}, rng=RNG)'))
        fams.append(('mpbfixed', f'MPBFixedContext({nmin}, RealFloat(m=6, exp={nmin + 1}), RM.{{rm}}, OV.SATURATE, {{k}}, rng=RNG)'))
    fams.append(('fixed', 'FixedContext(True, -1, 4, RM.{rm}, OV.SATURATE, {k}, rng=RNG)'))
    fams.append(('fixed', 'FixedContext(False, 0, 3, RM.{rm}, OV.WRAP, {k}, rng=RNG)'))
    fams.append(('smfixed', 'SMFixedContext(-1, 4, RM.{rm}, OV.SATURATE, {k}, rng=RNG)'))
    out = []
    for fam, t in fams:
        for rm in modes:
            for k in ks:
                out.append((fam, t.format(rm=rm, k=k), k, rm))
            out.append((fam, t.format(rm=rm, k='None'), None, rm))
    return out


def shard(i: int, n: int, tier: str, seed: int) -> Result:
    from ..gen import ctxs, operands
    from ..oracle import rnd
    from ..oracle.describe import describe, to_val, val_str
    from ..monitors.roundmon import same_val
    from fpy2.number import Float, RealFloat
    import copy

    res = Result(PROP, tier, seed)
    allc = _contexts(tier)
    random.Random(4242).shuffle(allc)
    rngs = (ScriptedRandom(), ScriptedGenerator())
    nctx = 0
    decoys = []
    for j, (fam, text, k, rm) in enumerate(allc[i::n]):
        rng = rngs[j % 2]
        ns = dict(ctxs.NS, RNG=rng)
        # "the outcome is a function of the operand and the bits drawn" from the context's own generator: an equal context (same
        # parameters, compares ==) with another generator is built first, and the context under test is built second (or derived
        # from the first with with_params / assignment), so anything shared between equal contexts shows as draws on the wrong object
        decoy = ScriptedRandom() if j % 2 == 0 else ScriptedGenerator()
        try:
            other = eval(text, dict(ctxs.NS, RNG=decoy))
            how = j % 3
            if how == 0:
                ctx = eval(text, ns)
            elif how == 1:
                ctx = other.with_params(rng=rng)
            else:
                ctx = eval(text, ns)
                ctx = ctx.with_params(rng=decoy).with_params(rng=rng)
            res.count(f'twin_context:{("built_second", "with_params", "with_params_twice")[how]}')
        except Exception as e:
            res.count(f'ctor_rejected:{fam}')
            continue
        decoys.append((decoy, text))
        nctx += 1
        det = ctx.with_params(num_randbits=0)
        fd = describe(det)            # deterministic twin for neighbours
        mags = operands.representable_mags(fd, limit=60)
        if fd.pos_max is not None:
            inrange = [m for m in mags if m <= fd.pos_max]
        else:
            inrange = mags
        if not inrange:
            continue
        # gaps: below the first value, first subnormal gap, a middle gap, the last gap; plus the overflow gap
        idx = sorted(g for g in set([0, 1, len(inrange) // 2, len(inrange) - 1]) if 0 <= g < len(inrange))
        gaps = []
        for g in idx:
            if g == 0 and fd.expmin is None:
                continue        # unbounded exponent: nothing is "the gap above zero"
            lo = Fraction(0) if g == 0 else inrange[g - 1]
            gaps.append((lo, inrange[g], False))
        if fd.pos_max is not None and fd.pos_max > 0:
            l2, h2, q, kk = rnd.neighbours(fd, fd.pos_max)
            gaps.append((fd.pos_max, fd.pos_max + rnd.pow2(q), True))
        kk = k if k is not None else 3
        steps = 1 << (kk + 2)
        for (lo, hi, over_gap) in gaps:
            gap = hi - lo
            for t in range(0, steps + 1):
                a = lo + gap * t / steps
                if a == 0:
                    continue
                for neg in (False, True):
                    if neg and fd.neg_max is not None and fd.neg_max == 0:
                        continue
                    if neg and fd.neg_max is not None and -fd.neg_max != fd.pos_max:
                        continue
                    _one(res, ctx, det, fd, rng, text, fam, k, rm, lo, hi, a, neg, over_gap)
            # operands that are not dyadic reach the rounding through the MPFR fallback (a round-to-odd intermediate with
            # p + k + 2 digits): offsets 1/3, 1/5, 5/7, 9/10, 1/100 of the gap as Fractions, and one as a decimal string
            if k is not None:
                for frac in (Fraction(1, 3), Fraction(1, 5), Fraction(5, 7), Fraction(9, 10), Fraction(1, 100)):
                    a = lo + gap * frac
                    for neg in (False, True):
                        if neg and fd.neg_max is not None and (fd.neg_max == 0 or -fd.neg_max != fd.pos_max):
                            continue
                        _one(res, ctx, det, fd, rng, text, fam, k, rm, lo, hi, a, neg, over_gap, present='fraction')
                dec = _decimal_in_gap(lo, hi)
                if dec is not None:
                    _one(res, ctx, det, fd, rng, text, fam, k, rm, lo, hi, Fraction(dec), False, over_gap, present='decimal:' + dec)
        if nctx <= 2:
            res.sample({'context': text, 'gaps': [[str(g[0]), str(g[1])] for g in gaps], 'operands_per_gap': steps + 1, 'draws': 1 << kk})
    for decoy, text in decoys:
        if decoy.calls:
            res.violate({'property': PROP, 'context': text, 'problem': f'draws: {len(decoy.calls)} draws were taken from the generator of another (equal) context',
                         'mechanism': {'kind': 'draws_from_other_context'}})
    res.counters['contexts'] = nctx
    return res


def _decimal_in_gap(lo: Fraction, hi: Fraction):
    """a short decimal literal strictly inside (lo, hi) that is not dyadic, or None"""
    from decimal import Decimal, getcontext
    getcontext().prec = 60
    mid = lo + (hi - lo) * Fraction(3, 10)
    d = Decimal(mid.numerator) / Decimal(mid.denominator)
    for digits in range(2, 40):
        q = +d.quantize(Decimal(1).scaleb(d.adjusted() - digits)) if d != 0 else d
        f = Fraction(q)
        if lo < f < hi and (f.denominator & (f.denominator - 1)) != 0:
            return format(q, 'f') if abs(q.adjusted()) < 25 else str(q)
    return None


def _one(res, ctx, det, fd, rng, text, fam, k, rm, lo, hi, a, neg, over_gap, present='realfloat'):
    from ..oracle import rnd
    from ..oracle.describe import to_val, val_str
    from ..monitors.roundmon import same_val
    from fpy2.number import RealFloat
    v = -a if neg else a
    if present == 'realfloat':
        x = RealFloat.from_rational(v)
    elif present == 'fraction':
        x = Fraction(v)
    else:
        x = present.split(':', 1)[1]
    res.count('operands_as_' + present.split(':')[0])
    # effective number of random bits
    gap = hi - lo
    if k is None:
        # "all bits": the width asked of the generator depends on the operand's
        # encoding; learn it from a probe call, then enumerate that many bits
        rng.value = 0
        rng.calls.clear()
        try:
            ctx.round(x)
        except Exception:
            pass
        if len(rng.calls) != 1:
            res.violate({'property': PROP, 'context': text, 'operand': str(v), 'problem': f'draws: {len(rng.calls)} draws consumed for one rounding',
                         'mechanism': {'family': fam, 'k': 'None', 'mode': rm, 'over_gap': over_gap, 'problem': 'draws'}})
            return
        kk = rng.calls[0]
        if kk > 10:
            res.count('none_width_too_large')
            return
        if ((a - lo) / gap * (1 << kk)).denominator != 1:
            res.violate({'property': PROP, 'context': text, 'operand': str(v), 'problem': f'width: num_randbits=None asked for {kk} bits, fewer than the operand has below the rounding position',
                         'mechanism': {'family': fam, 'k': 'None', 'mode': rm, 'over_gap': over_gap, 'problem': 'width'}})
            return
        keff = None
    else:
        kk = k
        keff = k
    representable = rnd.member(fd, ('fin', neg, a)) if not over_gap else (a == lo)
    lo_v = ('fin', neg, lo)
    if lo == 0:
        lo_v = ('fin', neg and fd.has_neg_zero, Fraction(0))
    # expected count: offset in units of 2^-kk of the gap, rounded by the mode at that quantum
    units = (a - lo) / gap * (1 << kk)
    fl = units.__floor__()
    if units.denominator == 1:
        L = int(units)
    else:
        up = rnd.choose_up(rm, neg, units, Fraction(fl), Fraction(fl + 1), fl)
        L = fl + 1 if up else fl
    ups = 0
    outcomes = {}
    ndraw = 1 << kk
    res.evaluations += 1
    mech = {'family': fam, 'k': 'None' if k is None else 'k', 'mode': rm, 'over_gap': over_gap, 'operand_as': present.split(':')[0]}

    def bad(problem, **kw):
        res.violate({'property': PROP, 'context': text, 'operand': str(v), 'lo': str(lo), 'hi': str(hi),
                     'problem': problem, **kw, 'mechanism': dict(mech, problem=problem.split(':')[0])})

    for r in range(ndraw):
        rng.value = r
        rng.calls.clear()
        try:
            y = ctx.round(x)
        except Exception as e:
            if over_gap:
                res.count('over_gap_raise')
                return
            bad(f'raised: {type(e).__name__}: {e}', draw=r)
            return
        # one draw of the right width
        if len(rng.calls) != 1:
            bad(f'draws: {len(rng.calls)} draws consumed for one rounding', draw=r, calls=list(rng.calls))
            return
        if keff is not None and rng.calls[0] != keff:
            bad(f'width: asked for {rng.calls[0]} bits, context has num_randbits={keff}', draw=r)
            return
        yv = to_val(y)
        outcomes[r] = yv
        if representable:
            if not same_val(yv, ('fin', neg, a)):
                ups += 1
        elif same_val(yv, lo_v):
            pass
        else:
            ups += 1
            if not over_gap:
                hi_v = ('fin', neg, hi)
                if not same_val(yv, hi_v):
                    bad(f'neighbour: result {val_str(yv)} is neither {val_str(lo_v)} nor {val_str(hi_v)}', draw=r)
                    return
        # determinism: same bits, same result
        rng.value = r
        y2 = ctx.round(x)
        if not same_val(to_val(y2), yv):
            bad(f'function: same operand and bits gave {val_str(yv)} then {val_str(to_val(y2))}', draw=r)
            return
    if representable:
        if ups != 0:
            bad(f'representable: representable operand changed in {ups} of {ndraw} draws')
        res.count('representable_operands')
        return
    res.nontrivial += 1
    if over_gap:
        res.count('over_gap_operands')
        return
    if ups != L:
        bad(f'count: {ups} of {ndraw} draws leave the lower neighbour, expected {L}', expected=L, got=ups,
            offset=str((a - lo) / gap))
        return
    res.count('counted_distributions')


def main(tier: str) -> int:
    s = get_seed()
    res = Result(PROP, tier, s, rule=RULE)
    res.assumptions = ['neighbours from the independent oracle of the deterministic twin context',
                       'in the gap above the largest value only membership/determinism are judged (which way "up" goes is the overflow policy)']
    run_shards('vf.checks.c17', 16 if tier == 'quick' else 32, tier, s, timeout=900 if tier == 'quick' else 3000, res=res)
    res.exhaustive = True
    res.extra['exhaustive_scope'] = 'for each operand all 2^k draws are executed (k in 1..3 quick / 1..5 thorough, and None)'
    if res.counters.get('counted_distributions', 0) == 0 and not res.violations:
        res.inconclusive.append('no full distribution was counted')
    return finish(res)


if __name__ == '__main__':
    shard_main(shard)
