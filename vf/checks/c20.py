"""
C20 -- library decompositions are exact.

The real library functions (fpy2.libraries.eft / core) are called under small
float contexts on every pair (sampled triples) of representable operands; the
returned terms are recombined with Fractions and compared with the exact
sum / product / fma, the leading term with the context's rounding of the exact
result (independent oracle).  Preconditions are evaluated by the oracle, from
the docstrings and the literature they cite.
"""
from __future__ import annotations

import random
from fractions import Fraction

from ..common import Result, finish, run_shards, seed as get_seed, shard_main

PROP = 'C20'
RULE = ('one evaluation = one library call whose preconditions hold, recombined exactly and compared; non-trivial = distinct '
        '(function, context, operands) whose exact result is not representable (a non-zero error term exists)')


def lsb_exp(v: Fraction):
    """exponent of the lowest set bit of a non-zero dyadic"""
    n, d = abs(v.numerator), v.denominator
    return ((n & -n).bit_length() - 1) - (d.bit_length() - 1)


def contexts(tier):
    quick = tier == 'quick'
    out = []
    rn = ['RNE', 'RNA']
    allm = ['RNE', 'RNA', 'RTP', 'RTN', 'RTZ', 'RAZ', 'RTO', 'RTE']
    for p in ((2, 3, 4) if quick else (2, 3, 4, 5, 6)):
        for emin in ((-2,) if quick else (-4, -2)):
            for rm in allm:
                out.append((f'MPSFloatContext({p}, {emin}, RM.{rm})', p, rm))
        for rm in (rn if quick else allm):
            out.append((f'MPFloatContext({p}, RM.{rm})', p, rm))
    for rm in rn:
        out.append((f'IEEEContext(3, {3 + 1 + (3 if quick else 4)}, RM.{rm})', 4 if quick else 5, rm))
    if quick:
        # odd and larger precisions for the splitting-based products (F61: ceil(p / 2) was wrong for p = 5, 9, 13, ...)
        out += [('MPSFloatContext(5, -4, RM.RNE)', 5, 'RNE'), ('MPFloatContext(5, RM.RNA)', 5, 'RNA'), ('MPSFloatContext(6, -4, RM.RNA)', 6, 'RNA'),
                ('MPFloatContext(7, RM.RNE)', 7, 'RNE'), ('MPFloatContext(9, RM.RNE)', 9, 'RNE')]
    else:
        out.append(('MPFloatContext(7, RM.RNE)', 7, 'RNE'))
        out.append(('MPFloatContext(8, RM.RNA)', 8, 'RNA'))
        out.append(('MPFloatContext(9, RM.RNE)', 9, 'RNE'))
        out.append(('MPSFloatContext(13, -20, RM.RNE)', 13, 'RNE'))
        out.append(('IEEEContext(5, 16, RM.RNE)', 11, 'RNE'))
    return out


def shard(i: int, n: int, tier: str, seed: int) -> Result:
    import fpy2 as fp
    from fpy2.libraries import eft, core
    from fpy2.number import Float, RealFloat
    from ..gen import ctxs, operands
    from ..oracle import rnd
    from ..oracle.describe import describe, to_val, val_str
    from ..monitors.roundmon import same_val

    res = Result(PROP, tier, seed)
    rng = random.Random(seed * 9176 + i)
    quick = tier == 'quick'
    allc = contexts(tier)
    random.Random(3).shuffle(allc)

    def fr(x):
        return x.as_rational()

    def bad(fn, ctext, args, got, why, **mech):
        res.violate({'property': PROP, 'function': fn, 'context': ctext, 'args': [str(a) for a in args], 'got': got, 'problem': why,
                     'mechanism': dict({'function': fn, 'problem': why.split(':')[0]}, **mech)})

    for (ctext, p, rm) in allc[i::n]:
        ctx = ctxs.build(ctext)
        fd = describe(ctx)
        mags = operands.representable_mags(fd, limit=(1 << p) * (3 if quick else 5))
        if fd.pos_max is not None:
            mags = [m for m in mags if m <= fd.pos_max / 4]
        vals = sorted(set([Fraction(0)] + mags + [-m for m in mags]))
        objs = {v: (Float(x=RealFloat.from_rational(v), ctx=ctx) if v != 0 else Float(c=0, exp=0, ctx=ctx)) for v in vals}
        nearest = rm in ('RNE', 'RNA')
        is_ieee = fd.pos_max is not None

        def rounded(v):
            e = rnd.expected_round(fd, ('fin', v < 0, abs(v)))
            return e

        def is_member(v):
            return v == 0 or rnd.member(fd, ('fin', v < 0, abs(v)))

        cap = 2500 if quick else 40000
        if len(vals) * len(vals) > cap:
            # sampled without building the full product (81921^2 pairs at p = 13)
            seen_pairs = set()
            while len(seen_pairs) < cap:
                seen_pairs.add((rng.choice(vals), rng.choice(vals)))
            pairs = sorted(seen_pairs)
            rng.shuffle(pairs)
        else:
            pairs = [(a, b) for a in vals for b in vals]
        for (a, b) in pairs:
            A, B = objs[a], objs[b]
            exact_sum, exact_prod = a + b, a * b
            e_sum, e_prod = rounded(exact_sum), rounded(exact_prod)
            sum_over = bool(e_sum.overflow)
            prod_over = bool(e_prod.overflow)
            # -- sums --------------------------------------------------------
            for name, fn in (('ideal_2sum', eft.ideal_2sum), ('fast_2sum', eft.fast_2sum), ('classic_2sum', eft.classic_2sum), ('priest_2sum', eft.priest_2sum)):
                if sum_over:
                    res.count('pre_false:overflow')
                    continue
                if name in ('fast_2sum', 'classic_2sum') and not nearest:
                    res.count('pre_false:mode')
                    continue
                if name == 'fast_2sum' and abs(a) < abs(b):
                    res.count('pre_false:order')
                    continue
                try:
                    s, t = fn(A, B, ctx=ctx)
                except Exception as e:
                    bad(name, ctext, (a, b), None, f'raised: {type(e).__name__}: {str(e)[:150]}', p=p)
                    continue
                res.evaluations += 1
                if exact_sum != e_sum.values[0][2] * (-1 if e_sum.values[0][1] else 1):
                    res.nontrivial += 1
                if s.is_nar() or t.is_nar():
                    bad(name, ctext, (a, b), f'({s}, {t})', 'special: non-finite term for finite operands', p=p)
                    continue
                if fr(s) + fr(t) != exact_sum:
                    bad(name, ctext, (a, b), f'({fr(s)}, {fr(t)})', f'sum: s + t = {fr(s) + fr(t)} but a + b = {exact_sum}', p=p)
                    continue
                if name != 'priest_2sum' and not any(v[0] == 'fin' and v[2] == abs(fr(s)) and (v[2] == 0 or v[1] == (fr(s) < 0)) for v in e_sum.values):
                    bad(name, ctext, (a, b), f'({fr(s)}, {fr(t)})', f'leading: s is not the rounding of a + b ({[val_str(v) for v in e_sum.values]})', p=p)
            # -- products ------------------------------------------------------
            for name, fn in (('ideal_2mul', eft.ideal_2mul), ('fast_2mul', eft.fast_2mul), ('classic_2mul', eft.classic_2mul)):
                if prod_over:
                    res.count('pre_false:overflow')
                    continue
                rp = e_prod.values[0]
                rpv = -rp[2] if rp[1] else rp[2]
                err = exact_prod - rpv
                if name != 'ideal_2mul' and not is_member(err):
                    res.count('pre_false:error_underflow')
                    continue
                if name == 'classic_2mul':
                    if not nearest:
                        res.count('pre_false:mode')
                        continue
                    # Veltkamp's splitting needs 2 <= s <= p - 2 with s = ceil(p / 2)
                    # (Handbook of Floating-Point Arithmetic, Alg. 4.9/4.10), i.e. p >= 4
                    # -- the literature's hypothesis; the function's own docstring states no precision precondition and at p = 2, 3 the
                    # split degenerates gracefully (s = 1, 2: one part is zero or a single digit), so those precisions are compared too
                    if p < 2:
                        res.count('pre_false:precision')
                        continue
                    if a != 0 and b != 0 and fd.expmin is not None and lsb_exp(a) + lsb_exp(b) < fd.expmin:
                        res.count('pre_false:partial_underflow')
                        continue
                    # "all intermediate results finite": the splitting multiplies by 2^s + 1
                    cmul = (1 << ((p + 1) // 2)) + 1
                    if fd.pos_max is not None and (abs(a) * cmul > fd.pos_max or abs(b) * cmul > fd.pos_max):
                        res.count('pre_false:split_overflow')
                        continue
                try:
                    s, t = fn(A, B, ctx=ctx)
                except Exception as e:
                    bad(name, ctext, (a, b), None, f'raised: {type(e).__name__}: {str(e)[:150]}', p=p)
                    continue
                res.evaluations += 1
                if err != 0:
                    res.nontrivial += 1
                if s.is_nar() or t.is_nar():
                    bad(name, ctext, (a, b), f'({s}, {t})', 'special: non-finite term for finite operands', p=p)
                    continue
                if fr(s) + fr(t) != exact_prod:
                    bad(name, ctext, (a, b), f'({fr(s)}, {fr(t)})', f'product: s + t = {fr(s) + fr(t)} but a * b = {exact_prod}', p=p)
                    continue
                if fr(s) != rpv:
                    bad(name, ctext, (a, b), f'({fr(s)}, {fr(t)})', f'leading: s is not the rounding of a * b ({rpv})', p=p)
        # -- fma: sampled triples -----------------------------------------------
        ntr = 600 if quick else 6000
        seen3 = set()
        for _ in range(ntr):
            a, b, c = rng.choice(vals), rng.choice(vals), rng.choice(vals)
            if (a, b, c) in seen3:
                continue
            seen3.add((a, b, c))
            exact = a * b + c
            e = rounded(exact)
            if e.overflow:
                continue
            rv = -e.values[0][2] if e.values[0][1] else e.values[0][2]
            A, B, C = objs[a], objs[b], objs[c]
            for name, fn in (('ideal_fma', eft.ideal_fma), ('classic_2fma', eft.classic_2fma)):
                if name == 'classic_2fma':
                    if not nearest or p < 5:
                        res.count('pre_false:fma_mode_or_precision')
                        continue
                    if fd.expmin is not None and a != 0 and b != 0 and lsb_exp(a) + lsb_exp(b) < fd.expmin + p:
                        res.count('pre_false:partial_underflow')
                        continue
                    if rounded(a * b).overflow:
                        continue
                try:
                    r = fn(A, B, C, ctx=ctx)
                except Exception as ex:
                    bad(name, ctext, (a, b, c), None, f'raised: {type(ex).__name__}: {str(ex)[:150]}', p=p)
                    continue
                res.evaluations += 1
                if exact != rv:
                    res.nontrivial += 1
                if any(x.is_nar() for x in r):
                    bad(name, ctext, (a, b, c), str(r), 'special: non-finite term for finite operands', p=p)
                    continue
                tot = sum((fr(x) for x in r), Fraction(0))
                if tot != exact:
                    bad(name, ctext, (a, b, c), str([str(fr(x)) for x in r]), f'fma: terms sum to {tot} but a * b + c = {exact}', p=p)
                    continue
                if fr(r[0]) != rv:
                    bad(name, ctext, (a, b, c), str([str(fr(x)) for x in r]), f'leading: r1 is not the rounding of a * b + c ({rv})', p=p)
        # -- ldexp -----------------------------------------------------------------
        # operands wider than the context too: "the exact product rounded once"
        wide = []
        for x1, x2 in zip(vals, vals[1:]):
            wide += [(x1 + x2) / 2, (3 * x1 + x2) / 4, (x1 + 7 * x2) / 8]
        wobjs = {v: Float(x=RealFloat.from_rational(v), ctx=None) for v in wide if v != 0}
        for a in vals + list(wobjs):
            for k in (-3, -1, 0, 1, 2, 5):
                exact = a * Fraction(2) ** k
                e = rounded(exact)
                try:
                    r = core.ldexp(objs[a] if a in objs else wobjs[a], k, ctx=ctx)
                except Exception as ex:
                    if e.raises and type(ex).__name__ in e.raises:
                        continue
                    bad('ldexp', ctext, (a, k), None, f'raised: {type(ex).__name__}: {str(ex)[:150]}', p=p)
                    continue
                res.evaluations += 1
                if not any(same_val(to_val(r), v) for v in e.values) and not (a == 0):
                    bad('ldexp', ctext, (a, k), str(r), f'ldexp: not the exact product rounded once ({[val_str(v) for v in e.values]})', p=p)
                elif e.inexact:
                    res.nontrivial += 1
        if i == 0 and len(res.samples) < 3:
            res.sample({'context': ctext, 'operand_values': len(vals), 'pairs': len(pairs), 'fma_triples': ntr})
        res.count('contexts')

    # -- exact decompositions: split / modf / frexp on every kind of operand ---------
    if i == 0 or True:
        xs = []
        for c in range(0, 16 if quick else 40):
            for e in range(-5, 5):
                if (c * 31 + e) % n == i:
                    xs.append(Float(c=c, exp=e))
                    xs.append(Float(s=True, c=c, exp=e))
        specials = [Float(isinf=True), Float(s=True, isinf=True), Float(isnan=True), Float(c=0, exp=0), Float(s=True, c=0, exp=0)]
        for x in xs + specials:
            dx = to_val(x)
            for nn in range(-7, 8):
                try:
                    hi, lo = core.split(x, nn, ctx=fp.REAL)
                except Exception as ex:
                    bad('split', 'REAL', (x, nn), None, f'raised: {type(ex).__name__}: {str(ex)[:150]}')
                    continue
                res.evaluations += 1
                if dx[0] == 'nan':
                    if not (hi.isnan and lo.isnan):
                        bad('split', 'REAL', (x, nn), f'({hi}, {lo})', 'special: NaN must give (NaN, NaN)')
                elif dx[0] == 'inf':
                    if not (hi.isinf and lo.isinf and hi.s == x.s and lo.s == x.s):
                        bad('split', 'REAL', (x, nn), f'({hi}, {lo})', 'special: infinity must give (x, x)')
                else:
                    v = -dx[2] if dx[1] else dx[2]
                    u = Fraction(2) ** (nn + 1)
                    if hi.is_nar() or lo.is_nar() or fr(hi) + fr(lo) != v or (fr(hi) / u).denominator != 1 or abs(fr(lo)) >= u:
                        bad('split', 'REAL', (x, nn), f'({hi}, {lo})', f'split: parts do not recombine / are not separated at digit {nn}')
                    elif dx[2] != 0:
                        res.nontrivial += 1
            # modf
            try:
                ip, fpart = core.modf(x, ctx=fp.REAL)
                res.evaluations += 1
                if dx[0] == 'nan':
                    ok = ip.isnan and fpart.isnan
                elif dx[0] == 'inf':
                    ok = (not ip.is_nar()) and ip.is_zero() and ip.s == x.s and fpart.isinf and fpart.s == x.s
                else:
                    v = -dx[2] if dx[1] else dx[2]
                    ok = (not ip.is_nar()) and (not fpart.is_nar()) and fr(ip) + fr(fpart) == v and fr(ip).denominator == 1 and abs(fr(fpart)) < 1 \
                        and (fr(ip) == 0 or (fr(ip) < 0) == dx[1]) and (fr(fpart) == 0 or (fr(fpart) < 0) == dx[1])
                    if dx[2] == 0:
                        ok = ok and ip.s == x.s and fpart.s == x.s
                if not ok:
                    bad('modf', 'REAL', (x,), f'({ip}, {fpart})', 'modf: integral and fractional parts wrong')
            except Exception as ex:
                bad('modf', 'REAL', (x,), None, f'raised: {type(ex).__name__}: {str(ex)[:150]}')
            # frexp
            try:
                m, ex_ = core.frexp(x, ctx=fp.REAL)
                res.evaluations += 1
                if dx[0] == 'nan':
                    ok = m.isnan and ex_.isnan
                elif dx[0] == 'inf':
                    ok = m.isinf and m.s == x.s and ex_.isnan
                elif dx[2] == 0:
                    ok = m.is_zero() and m.s == x.s and ex_.is_zero()
                else:
                    v = -dx[2] if dx[1] else dx[2]
                    ok = (not m.is_nar()) and (not ex_.is_nar()) and fr(ex_).denominator == 1 and fr(m) * Fraction(2) ** int(fr(ex_)) == v
                if not ok:
                    bad('frexp', 'REAL', (x,), f'({m}, {ex_})', 'frexp: mantissa * 2^exponent != x (or wrong special row)')
            except Exception as ex:
                bad('frexp', 'REAL', (x,), None, f'raised: {type(ex).__name__}: {str(ex)[:150]}')
        # -- the same decompositions under narrow float contexts: "performed exactly" means that what comes back recombines to the operand;
        # a part the context cannot hold has to be an error (ctx.round(..., exact=True) raises), never a silently rounded part
        narrow = [('IEEEContext(5, 7)', fp.IEEEContext(5, 7)), ('MPFloatContext(2)', fp.MPFloatContext(2)), ('MPSFloatContext(3, -3)', fp.MPSFloatContext(3, -3)),
                  ('IEEEContext(4, 8, RTZ)', fp.IEEEContext(4, 8, fp.RM.RTZ)), ('MPFloatContext(1, RAZ)', fp.MPFloatContext(1, fp.RM.RAZ))]
        wide_exp = [Float(c=c, exp=e) for c in (1, 3, 5, 7) for e in (-40, -21, -13, -6, 5, 9, 11, 13, 21, 37) if (c + e) % n == i]
        for ctext, nctx in narrow:
            for x in xs + wide_exp:
                dx = to_val(x)
                if dx[0] != 'fin' or dx[2] == 0:
                    continue
                v = -dx[2] if dx[1] else dx[2]
                for fname, call, recombine in (
                        ('frexp', lambda: core.frexp(x, ctx=nctx), lambda r: fr(r[1]).denominator == 1 and fr(r[0]) * Fraction(2) ** int(fr(r[1])) == v),
                        ('modf', lambda: core.modf(x, ctx=nctx), lambda r: fr(r[0]) + fr(r[1]) == v),
                        ('split', lambda: core.split(x, 0, ctx=nctx), lambda r: fr(r[0]) + fr(r[1]) == v)):
                    try:
                        r = call()
                    except Exception:
                        res.count(f'narrow_{fname}_raised')
                        continue
                    res.evaluations += 1
                    res.nontrivial += 1
                    if any(t.is_nar() for t in r) or not recombine(r):
                        bad(fname, ctext, (x,), str(tuple(str(t) for t in r)), f'{fname}: parts returned under a narrow context do not recombine to the operand')
    return res


def main(tier: str) -> int:
    s = get_seed()
    res = Result(PROP, tier, s, rule=RULE)
    res.assumptions = ['preconditions evaluated by the oracle: RN for fast_2sum/classic_2sum/classic_2mul/classic_2fma; |a|>=|b| for fast_2sum; '
                       'no overflow of the rounded result; exact error term representable (no underflow); p>=4 for Veltkamp/Dekker (2 <= s <= p-2), p>=5 for Boldo-Muller; '
                       'partial products not below the subnormal quantum',
                       'exact arithmetic by Fraction; rounding by vf/oracle/rnd.py']
    run_shards('vf.checks.c20', 16 if tier == 'quick' else 32, tier, s, timeout=900 if tier == 'quick' else 3000, res=res)
    res.exhaustive = tier == 'thorough'
    res.extra['exhaustive_scope'] = 'all operand pairs of every listed context up to 40000 pairs (thorough); sampled 2500 pairs per context in quick; fma triples sampled'
    return finish(res)


if __name__ == '__main__':
    shard_main(shard)
