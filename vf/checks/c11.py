"""
C11 -- compiled C++ agrees bit for bit with the interpreter.

Generated programs (only operations a C++ toolchain rounds correctly) are
compiled by the real CppCompiler under every combination of optimize x unbox x
arrays; the distinct emitted translation units are built with g++ twice
(-O0 with AddressSanitizer + UndefinedBehaviorSanitizer, and -O2
-frounding-math) together with a driver written here that calls the entry on
the argument vectors, prints the exact bits of every scalar / element / field
and the rounding mode after the call.  Oracles: Function.__call__ under the
same context (value, sign of zero, NaN, bool, lengths, fields); the sanitizers;
the rounding mode must be what it was before the call.
"""
from __future__ import annotations

import hashlib
import math
import os
import random
import struct
import subprocess
import traceback
from fractions import Fraction

from ..common import Result, finish, run_shards, seed as get_seed, shard_main

PROP = 'C11'
NO_MEMORY_LIMIT = True     # the AddressSanitizer builds reserve terabytes of address space
RULE = ('one evaluation = one (program, option set, argument vector, build) whose printed result was compared with the interpreter; non-trivial = comparisons '
        'on programs that change the rounding mode or storage type inside (with-blocks), call a helper or return a list / tuple; distinct by all four')

HEADER = '''import fpy2 as fp

F32Z = fp.IEEEContext(8, 32, fp.RM.RTZ)
F32P = fp.IEEEContext(8, 32, fp.RM.RTP)
F32N = fp.IEEEContext(8, 32, fp.RM.RTN)
F64Z = fp.IEEEContext(11, 64, fp.RM.RTZ)
F64P = fp.IEEEContext(11, 64, fp.RM.RTP)
F64N = fp.IEEEContext(11, 64, fp.RM.RTN)

'''

FLOAT_CTXS = ['fp.FP64', 'fp.FP32', 'F32Z', 'F32P', 'F32N', 'F64Z', 'F64P', 'F64N', 'fp.FP64', 'fp.FP32']
DIRECTED = ('F32Z', 'F32P', 'F32N', 'F64Z', 'F64P', 'F64N')
INT_CTXS = ['fp.SINT8', 'fp.SINT16', 'fp.SINT32', 'fp.SINT64', 'fp.UINT8', 'fp.UINT16', 'fp.UINT32', 'fp.INTEGER']


class Gen:
    """cpp-profile programs.  Every variable remembers the context it was produced under; an operand from another context is rounded explicitly first."""

    def __init__(self, rng):
        self.rng = rng
        self.k = 0
        self.lines = []
        self.features = set()

    def fresh(self, p='v'):
        self.k += 1
        return f'{p}{self.k}'

    def operand(self, vars_, ctx):
        r = self.rng
        if vars_ and r.random() < 0.8:
            v, c = r.choice(vars_)
            return v if c == ctx else f'fp.round({v})'
        lit = r.choice(['1', '2', '3', '0.5', '0.25', '1.5', '-2', '7', '0.1', '100', '-0.0', '1e-3'])
        return f'fp.round({lit})'

    def expr(self, vars_, d, ctx, integer=False):
        r = self.rng
        if d <= 0 or r.random() < 0.3:
            return self.operand(vars_, ctx)
        ops = ['+', '-', '*', '+', '*', 'neg', 'abs', 'min', 'max']
        if not integer:
            ops += ['/', 'sqrt', 'fma', 'floor', 'ceil', 'trunc', 'ifexpr']
        op = r.choice(ops)
        a = lambda: self.expr(vars_, d - 1, ctx, integer)
        if op in '+-*/':
            return f'({a()} {op} {a()})'
        if op == 'neg':
            return f'(-{a()})'
        if op == 'abs':
            return f'abs({a()})'
        if op in ('min', 'max'):
            if r.random() < 0.45:
                # n-ary form; a literal operand has a narrow value class (no NaN, no zero), which the emitter uses to drop
                # the NaN / signed-zero guards of the operands that follow
                self.features.add('nary_minmax')
                lit = lambda: r.choice(['1.0', '-1.0', '2.0', '0.5', '-3.0', 'fp.round(1)', '0.0', '-0.0'])
                args = [lit() if r.random() < 0.35 else (self.operand(vars_, ctx) if r.random() < 0.7 else a()) for _ in range(r.choice([3, 3, 4]))]
                return f'{op}({", ".join(args)})'
            return f'{op}({a()}, {a()})'
        if op == 'sqrt':
            return f'fp.sqrt(abs({a()}))'
        if op == 'fma':
            return f'fp.fma({a()}, {a()}, {a()})'
        if op in ('floor', 'ceil', 'trunc'):
            return f'fp.{op}({a()})'
        return f'({a()} if {a()} {r.choice(["<", "<=", ">", "==", "!="])} {a()} else {a()})'

    def block(self, vars_, ind, depth, n, ctx, lists):
        r = self.rng
        vars_ = list(vars_)
        pad = '    ' * ind
        first = len(self.lines)
        for _ in range(n + 1):
            if _ == n:
                # a block must not be empty
                if len(self.lines) > first:
                    break
                v = self.fresh()
                self.lines.append(f'{pad}{v} = {self.expr(vars_, 1, ctx)}')
                vars_.append((v, ctx))
                break
            kinds = ['assign', 'assign', 'assign', 'aug']
            if depth > 0:
                kinds += ['with', 'with', 'if', 'for', 'while', 'listop', 'call', 'intblock', 'barecall']
            kind = r.choice(kinds)
            if kind == 'assign':
                v = self.fresh()
                self.lines.append(f'{pad}{v} = {self.expr(vars_, 2, ctx)}')
                vars_.append((v, ctx))
            elif kind == 'aug':
                same = [v for v, c in vars_ if c == ctx and not v.startswith(('x', 'y'))]
                if same:
                    v = r.choice(same)
                    self.lines.append(f'{pad}{v} = {v} {r.choice(["+", "-", "*"])} {self.expr(vars_, 1, ctx)}')
            elif kind == 'with':
                c2 = r.choice(FLOAT_CTXS)
                self.features.add('with')
                self.lines.append(f'{pad}with {c2}:')
                inner = self.block(vars_, ind + 1, depth - 1, r.randint(1, 3), c2, lists)
                vars_ = inner
            elif kind == 'barecall':
                # a directed-mode block whose only content is a call of a helper WITHOUT its own context: the callee
                # inherits the block's context, so the block has to set the hardware mode although it holds no operation
                c2 = r.choice(['F64Z', 'F64P', 'F64N'])
                src = r.choice([v for v, c in vars_ if c in ('fp.FP64', 'F64Z', 'F64P', 'F64N')] or ['x'])
                v = self.fresh()
                self.features.add('barecall')
                self.lines.append(f'{pad}with {c2}:')
                self.lines.append(f'{pad}    {v} = h2({src})')
                vars_.append((v, c2))
            elif kind == 'intblock':
                c2 = r.choice(INT_CTXS)
                self.features.add('int')
                self.lines.append(f'{pad}with {c2}:')
                v = self.fresh()
                src = r.choice(['1', '2', '3', '5', '7', '12'])
                self.lines.append(f'{pad}    {v} = {src}')
                w = self.fresh()
                self.lines.append(f'{pad}    {w} = {v} {r.choice(["+", "*", "-"])} {r.choice(["1", "2", "3"])}')
                vars_ += [(v, c2), (w, c2)]
            elif kind == 'if':
                v = self.fresh()
                self.lines.append(f'{pad}if {self.operand(vars_, ctx)} {r.choice(["<", "<=", ">", ">=", "==", "!="])} {self.operand(vars_, ctx)}:')
                self.lines.append(f'{pad}    {v} = {self.expr(vars_, 2, ctx)}')
                self.lines.append(f'{pad}else:')
                self.lines.append(f'{pad}    {v} = {self.expr(vars_, 2, ctx)}')
                vars_.append((v, ctx))
            elif kind == 'for':
                acc = self.fresh()
                i = self.fresh('i')
                self.lines.append(f'{pad}{acc} = {self.operand(vars_, ctx)}')
                if lists and r.random() < 0.6:
                    xs = r.choice(lists)
                    self.lines.append(f'{pad}for {i} in {xs}:')
                    self.lines.append(f'{pad}    {acc} = {acc} {r.choice(["+", "*", "-"])} fp.round({i})')
                else:
                    self.lines.append(f'{pad}for {i} in range({r.choice([1, 2, 3, 5])}):')
                    self.lines.append(f'{pad}    {acc} = {acc} {r.choice(["+", "*", "-"])} {self.expr(vars_, 1, ctx)}')
                vars_.append((acc, ctx))
            elif kind == 'while':
                k = self.fresh('k')
                acc = self.fresh()
                self.lines.append(f'{pad}{acc} = {self.operand(vars_, ctx)}')
                self.lines.append(f'{pad}{k} = 0')
                self.lines.append(f'{pad}while {k} < {r.choice([1, 2, 3])}:')
                self.lines.append(f'{pad}    {acc} = {acc} {r.choice(["+", "*"])} {self.expr(vars_, 1, ctx)}')
                self.lines.append(f'{pad}    with fp.INTEGER:')
                self.lines.append(f'{pad}        {k} = {k} + 1')
                vars_.append((acc, ctx))
            elif kind == 'listop' and lists:
                xs = r.choice(lists)
                form = r.random()
                self.features.add('list')
                if form < 0.35:
                    self.lines.append(f'{pad}{xs}[{r.choice([0, 1])}] = {self.expr(vars_, 1, ctx)}')
                elif form < 0.55:
                    ys = self.fresh('ys')
                    self.lines.append(f'{pad}{ys} = {xs}')
                    self.lines.append(f'{pad}{ys}[0] = {self.expr(vars_, 1, ctx)}')
                    lists.append(ys)
                elif form < 0.75:
                    ys = self.fresh('ys')
                    self.lines.append(f'{pad}{ys} = [{self.expr(vars_, 1, ctx)}, {self.expr(vars_, 1, ctx)}, {self.operand(vars_, ctx)}]')
                    lists.append(ys)
                else:
                    v = self.fresh()
                    self.lines.append(f'{pad}{v} = fp.round({xs}[{r.choice([0, 1, 2])}]) + fp.round(len({xs}))')
                    vars_.append((v, ctx))
            elif kind == 'call' and lists:
                if ctx in DIRECTED and r.random() < 0.75:
                    continue          # calls under a directed rounding mode are generated, but rarely (known finding F59)
                xs = r.choice(lists)
                v = self.fresh()
                self.features.add('call')
                if ctx in DIRECTED:
                    self.features.add('call_under_directed_mode')
                self.lines.append(f'{pad}{v} = fp.round({r.choice(["h0", "h1"])}({xs}, {self.operand(vars_, "fp.FP64")}))')
                vars_.append((v, ctx))
        return vars_

    def program(self):
        r = self.rng
        self.lines = [HEADER,
                      '@fp.fpy(ctx=fp.FP64)', 'def h0(zs: list[fp.Real], z: fp.Real) -> fp.Real:', '    zs[0] = zs[0] + z', '    return zs[0] * z', '',
                      '@fp.fpy(ctx=fp.FP64)', 'def h1(zs: list[fp.Real], z: fp.Real) -> fp.Real:', '    t = zs[1]', '    zs[1] = z', '    with F64Z:',
                      '        u = t / 3', '    return u - zs[0]', '']
        self.lines += ['@fp.fpy', 'def h2(z: fp.Real) -> fp.Real:', '    return z / 3 + z * fp.round(0.1)', '']
        self.ctx = 'fp.FP64'
        self.lines += ['@fp.fpy(ctx=fp.FP64)', 'def f(x: fp.Real, y: fp.Real, xs: list[fp.Real]):']
        lists = ['xs']
        vars_ = self.block([('x', 'fp.FP64'), ('y', 'fp.FP64')], 1, 3, r.randint(3, 7), 'fp.FP64', lists)
        kind = r.choice(['R', 'R', 'T', 'L', 'B', 'LX'])
        self.ret = kind
        if kind == 'R':
            self.lines.append(f'    return {self.expr(vars_, 2, "fp.FP64")}')
        elif kind == 'T':
            self.lines.append(f'    return ({self.operand(vars_, "fp.FP64")}, {self.expr(vars_, 1, "fp.FP64")}, {self.operand(vars_, "fp.FP64")} < {self.operand(vars_, "fp.FP64")})')
        elif kind == 'L':
            self.lines.append(f'    return [{self.operand(vars_, "fp.FP64")}, {self.expr(vars_, 1, "fp.FP64")}]')
        elif kind == 'LX':
            self.lines.append(f'    return {r.choice(lists)}')
        else:
            self.lines.append(f'    return {self.operand(vars_, "fp.FP64")} <= {self.operand(vars_, "fp.FP64")}')
        return '\n'.join(self.lines) + '\n'


# ---------------------------------------------------------------------------------------------
# corner programs: what the emitter decides from value classes (dropping NaN / signed-zero guards, picking library forms), run on
# the full cross product of the special operands -- the values a random argument vector rarely lines up

CORNER_VALUES = [0.0, -0.0, float('nan'), float('inf'), float('-inf'), 1.0, -1.0, 2.5]

CORNERS = [
    ('nary_minmax_literal_first', '''    a = min(1.0, x, y)
    b = max(-1.0, x, y)
    c = min(x, 2.0, y)
    return (a, b, c)
'''),
    ('nary_minmax_literal_last', '''    a = max(x, y, xs[0], -0.0)
    b = min(x, y, 0.0)
    c = min(2.0, x, 1.0, y)
    return (a, b, c)
'''),
    ('minmax_after_refinement', '''    if x > 0:
        a = min(x, y, xs[1])
    else:
        a = max(x, y, xs[1])
    if y != y:
        b = fp.round(0)
    else:
        b = min(y, x, -y)
    return (a, b, x < y)
'''),
    ('minmax_literal_zero', '''    a = min(x, 0.0)
    b = max(x, -0.0)
    c = min(-0.0, y)
    return (a, b, max(0.0, y))
'''),
    ('signs_of_zero', '''    a = abs(x) * y
    b = (-x) + y
    c = x - x
    return (a, b, fp.fma(x, y, -0.0) + c)
'''),
    ('comparisons', '''    a = x < y
    b = x == y
    c = x != y
    return (a, b, c, x >= y, x <= y, x > y)
'''),
    ('ifexpr_select', '''    a = x if x == y else y
    b = min(x, -x)
    c = max(y, -y)
    return (a, b, c)
'''),
    ('single_precision', '''    with fp.FP32:
        a = min(fp.round(1.0), fp.round(x), fp.round(y))
        b = max(fp.round(x), fp.round(-2.0), fp.round(y))
        c = fp.round(x) * fp.round(y)
    return (fp.round(a), fp.round(b), fp.round(c))
'''),
    ('integer_roundings', '''    a = fp.floor(x)
    b = fp.ceil(y)
    c = fp.trunc(x) + fp.sqrt(y)
    return (a, b, c)
'''),
    ('division', '''    a = x / y
    b = y / x
    c = fp.round(1.0) / x
    return (a, b, c)
'''),
    ('running_minimum', '''    m = xs[0]
    for e in xs:
        m = min(m, e, x)
    n = xs[0]
    for e in xs:
        n = max(e, n)
    return (m, n, max(m, n, y))
'''),
    ('alias_then_rebind_in_branch', '''    ys = xs
    if x > 0:
        xs = [y, y, x]
    ys[0] = x + 1
    return (ys[0] + xs[0], ys[1], xs[2])
'''),
    ('alias_then_rebind_in_loop', '''    ys = xs
    zs = ys
    for i in range(2):
        xs = [xs[0] + 1, y, y]
    k = 0
    while k < 2:
        zs = [zs[1], zs[0], x]
        with fp.INTEGER:
            k = k + 1
    return (ys[0], xs[0], zs[0] + ys[1])
'''),
    ('callee_writes_through_alias', '''    ys = xs
    if y > 0:
        xs = [x, x, x]
    t = wr(ys, y)
    return (ys[0] + t, xs[0], ys[1])
'''),
    ('callee_replaces_held_row', '''    xss = [[x, 2.0], [3.0, y]]
    row = xss[1]
    t = repl(xss, x)
    return (row[0] + t, xss[1][0], row[1])
'''),
    ('descending_range', '''    acc = x
    for i in range(5, 0, -2):
        acc = acc + fp.round(i)
    zs = [y * fp.round(i) for i in range(4, 1, -1)]
    for i in range(0, 6, 4):
        acc = acc * 2 + fp.round(i)
    return (acc, zs[0], zs[2] + fp.round(len(zs)))
'''),
    ('directed_minmax', '''    with F64Z:
        a = min(x, y, 1.0) + x
    with F64P:
        b = max(-1.0, x, y) * y
    return (a, b)
'''),
]


CORNER_PRELUDE = '''@fp.fpy(ctx=fp.FP64)
def wr(zs: list[fp.Real], z: fp.Real) -> fp.Real:
    zs[0] = z * 2
    return zs[1]

@fp.fpy(ctx=fp.FP64)
def repl(zss: list[list[fp.Real]], z: fp.Real) -> fp.Real:
    zss[1] = [z, z]
    return z

'''


def corner_source(body: str) -> str:
    return HEADER + CORNER_PRELUDE + '@fp.fpy(ctx=fp.FP64)\ndef f(x: fp.Real, y: fp.Real, xs: list[fp.Real]):\n' + body


# ---------------------------------------------------------------------------------------------
# driver emission (type directed)

DRIVER_HELPERS = r'''
#include <cstdio>
#include <cstring>
static double vf_f64(unsigned long long b) { double d; std::memcpy(&d, &b, 8); return d; }
static void vf_p(double d) { unsigned long long b; std::memcpy(&b, &d, 8); std::printf("F64:%016llx ", b); }
static void vf_p(float f) { unsigned int b; std::memcpy(&b, &f, 4); std::printf("F32:%08x ", b); }
static void vf_p(bool v) { std::printf("B:%d ", (int)v); }
static void vf_p(signed char v) { std::printf("I:%lld ", (long long)v); }
static void vf_p(short v) { std::printf("I:%lld ", (long long)v); }
static void vf_p(int v) { std::printf("I:%lld ", (long long)v); }
static void vf_p(long v) { std::printf("I:%lld ", (long long)v); }
static void vf_p(long long v) { std::printf("I:%lld ", (long long)v); }
static void vf_p(unsigned char v) { std::printf("U:%llu ", (unsigned long long)v); }
static void vf_p(unsigned short v) { std::printf("U:%llu ", (unsigned long long)v); }
static void vf_p(unsigned int v) { std::printf("U:%llu ", (unsigned long long)v); }
static void vf_p(unsigned long v) { std::printf("U:%llu ", (unsigned long long)v); }
static void vf_p(unsigned long long v) { std::printf("U:%llu ", (unsigned long long)v); }
'''


def f64_bits(v: float) -> str:
    return '0x%016xULL' % struct.unpack('<Q', struct.pack('<d', v))[0]


def emit_print(expr, cty, lines, counter):
    from fpy2.backend.cpp.types import CppList, CppTuple
    if isinstance(cty, CppList):
        seq = f'(*({expr}))' if cty.boxed else f'({expr})'
        lines.append(f'    std::printf("L:%zu ", (size_t){seq}.size());')
        i = counter[0]
        counter[0] += 1
        lines.append(f'    for (auto __e{i} : {seq}) {{')
        emit_print(f'__e{i}', cty.elt, lines, counter)
        lines.append('    }')
    elif isinstance(cty, CppTuple):
        for i, e in enumerate(cty.elts):
            emit_print(f'std::get<{i}>({expr})', e, lines, counter)
    else:
        lines.append(f'    vf_p({expr});')


def arg_decl(name, value, cty):
    """C++ declaration of a caller-owned argument of storage type cty holding value (floats given as doubles)"""
    from fpy2.backend.cpp.types import CppList
    if isinstance(cty, CppList):
        elt = cty.elt.format()
        elts = ', '.join(f'({elt})vf_f64({f64_bits(float(v))})' for v in value)
        if cty.boxed:
            return f'{cty.format()} {name} = std::make_shared<std::vector<{elt}>>(std::vector<{elt}>{{{elts}}});'
        if cty.size is not None:
            if len(value) != cty.size:
                return None
            return f'{cty.format()} {name} = {{{{{elts}}}}};' if elts else f'{cty.format()} {name} = {{}};'
        return f'{cty.format()} {name} = {{{elts}}};'
    t = cty.format()
    return f'{t} {name} = ({t})vf_f64({f64_bits(float(value))});'


def decode(tok):
    """printed token -> same shape as vf.gen.run.norm"""
    kind, _, body = tok.partition(':')
    if kind == 'B':
        return ('b', body == '1')
    if kind in ('I', 'U'):
        v = int(body)
        return ('n', v < 0, Fraction(abs(v)))
    if kind == 'F64':
        d = struct.unpack('<d', struct.pack('<Q', int(body, 16)))[0]
    elif kind == 'F32':
        d = struct.unpack('<f', struct.pack('<I', int(body, 16)))[0]
    else:
        raise ValueError(tok)
    if math.isnan(d):
        return ('n', 'nan')
    if math.isinf(d):
        return ('n', '-inf' if d < 0 else '+inf')
    return ('n', math.copysign(1.0, d) < 0, abs(Fraction(d)))


def parse_tokens(toks, pos, cty):
    from fpy2.backend.cpp.types import CppList, CppTuple
    if isinstance(cty, CppList):
        t = toks[pos[0]]
        pos[0] += 1
        n = int(t.partition(':')[2])
        return ('l', tuple(parse_tokens(toks, pos, cty.elt) for _ in range(n)))
    if isinstance(cty, CppTuple):
        return ('t', tuple(parse_tokens(toks, pos, e) for e in cty.elts))
    t = toks[pos[0]]
    pos[0] += 1
    return decode(t)


CXX = '/usr/bin/g++'
# The optimised build uses clang's strict floating-point model: g++ (and clang without it) move floating-point operations across
# fesetround calls at -O1 and above (no FENV_ACCESS support), so with them the emitted rounding-mode regions are not honoured --
# a limitation of the toolchain configuration, not of the emitted code.
BUILDS = [('asan_ubsan_O0', ['/usr/bin/g++', '-std=c++17', '-O0', '-g0', '-fsanitize=address,undefined', '-fno-sanitize-recover=all', '-frounding-math']),
          ('clang_O2_strict', ['/usr/bin/clang++', '-std=c++17', '-O2', '-ffp-model=strict', '-Wno-c++11-narrowing'])]

ARG_VALUES = [0.0, -0.0, 1.0, -1.0, 0.5, 1.5, -2.5, 3.0, 0.1, 7.0, 100.0, 1e-3, 1e10, -3.75, 1.0 / 3.0, 1e-40, 3.4028234663852886e+38, 1e308, 5e-324,
              16777217.0, 0.30000000000000004, float('inf'), float('-inf'), float('nan'), 255.0, -128.0, 65536.0]


def shard(i: int, n: int, tier: str, seed: int) -> Result:
    import fpy2 as fp
    from fpy2.backend.cpp.compiler import CppCompiler
    from fpy2.backend.cpp.unbox import UnboxMode
    from fpy2.module import Module
    from fpy2.types import ListType, RealType
    from ..gen import prog as genprog, run as genrun

    res = Result(PROP, tier, seed)
    rng = random.Random(seed * 27644437 + i)
    quick = tier == 'quick'
    nprog = (48 if quick else 480) // n
    ninputs = 8 if quick else 12
    R = RealType(fp.FP64)
    arg_types = [R, R, ListType(R)]
    refusals = {}
    env = dict(os.environ, ASAN_OPTIONS='abort_on_error=0:detect_leaks=0:halt_on_error=1', UBSAN_OPTIONS='print_stacktrace=1:halt_on_error=1')
    with genrun.Scratch(prefix='vf-c11-') as work:
        corners = CORNERS[i::n] if quick else CORNERS[i % len(CORNERS)::n][:2] + CORNERS[i::n]
        for pi in range(-len(corners), nprog):
            if len(res.violations) >= 20:
                res.count('stopped_early_violations')
                break
            g = Gen(rng)
            if pi < 0:
                cname, cbody = corners[pi]
                src = corner_source(cbody)
                g.features = {'corner:' + cname}
                g.ret = 'T'
                res.count('corner_programs')
            else:
                src = g.program()
            try:
                mod = genprog.load_module(src, work, 'c11')
            except Exception as e:
                res.count(f'rejected:{type(e).__name__}')
                continue
            f = mod.f
            shown = src[src.find('@fp.fpy(ctx=fp.FP64)\ndef f('):]
            rich = bool(g.features) or g.ret in ('T', 'L', 'LX')
            # inputs and interpreter reference
            inputs = []
            if pi < 0:
                vectors = [[vx, vy, [rng.choice(CORNER_VALUES) for _ in range(3)]] for vx in CORNER_VALUES for vy in CORNER_VALUES]
            else:
                vectors = [[rng.choice(ARG_VALUES), rng.choice(ARG_VALUES), [rng.choice(ARG_VALUES) for _ in range(3)]] for _ in range(ninputs)]
            for a in vectors:
                r0 = genrun.call(f, a, ctx=fp.FP64, timeout=8.0)
                if r0[0] == 'ok':
                    inputs.append((a, r0[1]))
                elif r0[0] == 'exc':
                    res.count('interpreter_raises')
            if not inputs:
                res.count('no_returning_input')
                genprog.unload(mod)
                continue
            # every option set; identical translation units are built once
            units = {}
            for optimize in (True, False):
                for unbox in (UnboxMode.ALLOW, UnboxMode.NEVER, UnboxMode.STRICT):
                    for arrays in (True, False):
                        label = f'optimize={optimize},unbox={unbox.name},arrays={arrays}'
                        cc = CppCompiler(optimize=optimize, unbox=unbox, arrays=arrays)
                        m = Module()
                        try:
                            m.add(f, ctx=fp.FP64, arg_types=list(arg_types))
                            out = genrun.guarded(lambda: (cc.compile_module(m), cc.signature(f, ctx=fp.FP64, arg_types=list(arg_types), module=m)), timeout=60.0)
                        except Exception as e:
                            out = ('exc', e)
                        if out[0] == 'timeout':
                            res.count('compile_timeout')
                            continue
                        if out[0] == 'exc':
                            key = f'{type(out[1]).__name__}: {str(out[1])[:70]}'
                            refusals[key] = refusals.get(key, 0) + 1
                            res.count('option_sets_refused')
                            continue
                        body, (params, ret_ty) = out[1]
                        res.count('option_sets_accepted')
                        key = hashlib.sha1((body + repr([p.format() for p in params]) + ret_ty.format()).encode()).hexdigest()
                        units.setdefault(key, {'body': body, 'params': params, 'ret': ret_ty, 'labels': [], 'cc': cc})['labels'].append(label)
            if not units:
                res.count('programs_refused')
                genprog.unload(mod)
                continue
            res.count('programs')
            for key, u in units.items():
                lines = ['int main() {', '  std::fesetround(FE_TONEAREST);']
                counter = [0]
                usable = []
                for j, (a, want) in enumerate(inputs):
                    decls = [arg_decl(f'a{j}_{k}', v, cty) for k, (v, cty) in enumerate(zip(a, u['params']))]
                    if any(d is None for d in decls):
                        continue
                    usable.append((a, want))
                    lines.append('  {')
                    lines += ['    ' + d for d in decls]
                    lines.append(f'    auto __r = f({", ".join(f"a{j}_{k}" for k in range(len(a)))});')
                    emit_print('__r', u['ret'], lines, counter)
                    lines.append('    std::printf("RM:%d\\n", (int)(std::fegetround() == FE_TONEAREST));')
                    lines.append('    std::fesetround(FE_TONEAREST);')
                    lines.append('  }')
                lines += ['  return 0;', '}']
                unit = '\n'.join(u['cc'].headers()) + '\n' + DRIVER_HELPERS + u['cc'].helpers() + '\n' + u['body'] + '\n' + '\n'.join(lines) + '\n'
                cpp = os.path.join(work, f'u_{pi}_{key[:10]}.cpp')
                with open(cpp, 'w') as fh:
                    fh.write(unit)
                for bname, flags in BUILDS:
                    exe = cpp[:-4] + '_' + bname
                    b = subprocess.run([*flags, '-o', exe, cpp], capture_output=True, text=True, timeout=300)
                    if b.returncode != 0:
                        res.evaluations += 1
                        res.violate({'property': PROP, 'problem': 'the emitted translation unit does not compile', 'options': u['labels'], 'build': bname,
                                     'compiler_output': b.stderr[-1500:], 'source': shown, 'emitted': u['body'][:4000],
                                     'mechanism': {'kind': 'does_not_compile', 'build': bname}})
                        break
                    res.count('builds')
                    try:
                        r = subprocess.run([exe], capture_output=True, text=True, timeout=120, env=env)
                    except subprocess.TimeoutExpired:
                        res.count('run_timeout')
                        continue
                    finally:
                        try:
                            os.remove(exe)
                        except OSError:
                            pass
                    san = 'ERROR: AddressSanitizer' in r.stderr or 'runtime error:' in r.stderr
                    if san or r.returncode != 0:
                        res.evaluations += 1
                        res.violate({'property': PROP, 'problem': 'sanitizer report / abnormal exit of the compiled program' if san else f'compiled program exited with {r.returncode}',
                                     'options': u['labels'], 'build': bname, 'stderr': r.stderr[-2000:], 'source': shown, 'emitted': u['body'][:4000],
                                     'mechanism': {'kind': 'sanitizer' if san else 'abnormal_exit', 'build': bname,
                                                   'report': ('asan' if 'AddressSanitizer' in r.stderr else 'ubsan' if 'runtime error' in r.stderr else 'exit')}})
                        break
                    outs = [ln for ln in r.stdout.splitlines() if ln.strip()]
                    if len(outs) != len(usable):
                        res.count('driver_output_mismatch')
                        continue
                    bad = False
                    for (a, want), line in zip(usable, outs):
                        toks = line.split()
                        rm_ok = toks[-1] == 'RM:1'
                        try:
                            got = parse_tokens(toks[:-1], [0], u['ret'])
                        except Exception as e:
                            res.count('token_parse_error')
                            continue
                        res.evaluations += len(u['labels'])
                        res.nontrivial += len(u['labels']) if rich else 0
                        if got != want:
                            res.violate({'property': PROP, 'problem': 'the compiled program returns a different value than the interpreter', 'options': u['labels'], 'build': bname,
                                         'args': repr(a), 'interpreter': genrun.show(want), 'compiled': genrun.show(got), 'source': shown, 'emitted': u['body'][:4000],
                                         'mechanism': {'kind': 'value', 'build': bname, 'ret': g.ret,
                                                       'call_under_directed_mode': 'call_under_directed_mode' in g.features}})
                            bad = True
                            break
                        if not rm_ok:
                            res.violate({'property': PROP, 'problem': 'the compiled function returns with a different rounding mode than it was entered with', 'options': u['labels'],
                                         'build': bname, 'args': repr(a), 'source': shown, 'emitted': u['body'][:4000],
                                         'mechanism': {'kind': 'rounding_mode_not_restored', 'build': bname}})
                            bad = True
                            break
                        res.count('agree')
                    if bad:
                        break
                try:
                    os.remove(cpp)
                except OSError:
                    pass
            if pi < 1:
                res.sample({'program': shown[:800], 'translation_units': len(units), 'inputs': len(inputs)})
            for ft in g.features | {g.ret}:
                res.extra.setdefault('features', {})
                res.extra['features'][ft] = res.extra['features'].get(ft, 0) + 1
            genprog.unload(mod)
    res.extra['refusals'] = refusals
    return res


def main(tier: str) -> int:
    s = get_seed()
    res = Result(PROP, tier, s, rule=RULE)
    res.assumptions = ['the interpreter (checked by C01 / C02 / C04) is the reference; the driver compares denotations of the printed bit patterns (sign of zero kept, any NaN equal)',
                       'option sets the compiler refuses (CppCompileError, STRICT unboxing) are counted, not judged; identical translation units are built once per program',
                       'toolchains: g++ 12 -O0 -frounding-math with ASan + UBSan, and clang++ 14 -O2 -ffp-model=strict (g++ / clang without the strict model move operations across fesetround)']
    run_shards('vf.checks.c11', 16, tier, s, timeout=1700 if tier == 'quick' else 3400, res=res)
    c = res.counters
    if not res.violations:
        if c.get('agree', 0) < 300 or c.get('programs', 0) < 20:
            res.inconclusive.append(f"too little observed: {c.get('programs', 0)} accepted programs, {c.get('agree', 0)} agreeing comparisons")
    return finish(res)


if __name__ == '__main__':
    shard_main(shard)
