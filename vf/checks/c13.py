"""
C13 -- static analysis facts hold on every execution.

Generated programs are decorated by the real @fp.fpy and analysed by the real
TypeInfer, ArraySizeInfer, ValueClassInfer, PartialEval, DefineUse and Alias;
then the main function is compiled by a *tracing* subclass of the bytecode
compiler (vf/monitors/trace.py) and run on many inputs.  Every evaluated
expression and every binding is checked online against the facts:

  type     value has the shape of by_expr[e] (bool / real / list / tuple / context; static length)
  size     len(list) == concrete inferred size; one size variable <-> one length per run
  class    class_of(value) in by_expr[e]
  const    value == the constant PartialEval reports for e
  defuse   the site that last bound the name read by a Var is among the assignments its
           reported definition stands for (through phi operands)
  alias    two names bound to the same list object have may_alias(def, def); a name bound
           to an element list of another has the same region as that one's depth-1 region
"""
from __future__ import annotations

import random
import re
import traceback
from fractions import Fraction

from ..common import Result, finish, run_shards, seed as get_seed, shard_main

PROP = 'C13'
RULE = ('one evaluation = one fact checked against one observed run-time value (per analysis counters in coverage); '
        'non-trivial = distinct (program, expression / definition pair) facts checked at least once that constrain the value: a concrete size or shared size variable, a class other than TOP, a reported constant, '
        'a definition reached through a phi, a positive alias obligation')

ANALYSES = ('type', 'size', 'class', 'const', 'defuse', 'alias')


class Violation(Exception):
    pass


class FactChecker:
    """observer for vf.monitors.trace: checks facts as the execution produces values"""

    def __init__(self, func, res: Result, source: str):
        from fpy2.analysis import (TypeInfer, ArraySizeInfer, ValueClassInfer, PartialEval, DefineUse, Alias)
        self.res = res
        self.source = source
        self.ast = func.ast
        self.errors = {}
        self.du = DefineUse.analyze(self.ast)
        self.ti = self._try('type', lambda: TypeInfer.check(self.ast, def_use=self.du))
        self.pe = self._try('const', lambda: PartialEval.apply(self.ast, def_use=self.du))
        self.asz = self._try('size', lambda: ArraySizeInfer.analyze(self.ast, partial_eval=self.pe, type_info=self.ti)) if self.ti and self.pe else None
        self.vc = self._try('class', lambda: ValueClassInfer.analyze(self.ast, def_use=self.du, type_info=self.ti)) if self.ti else None
        self.al = self._try('alias', lambda: Alias.analyze(self.ast, def_use=self.du, type_info=self.ti)) if self.ti else None
        self.counts = {a: 0 for a in ANALYSES}
        self.nt = set()         # distinct constraining facts exercised: (analysis, node)
        self.found = []
        self.seen_keys = set()
        self._comp_targets = self._comprehension_names()
        self.reset()

    def _try(self, what, thunk):
        try:
            return thunk()
        except Exception as e:
            self.errors[what] = f'{type(e).__name__}: {str(e)[:120]}'
            return None

    def _comprehension_names(self):
        from fpy2.ast.fpyast import ListComp, NamedId
        names = set()

        def targets(t):
            if isinstance(t, NamedId):
                names.add(t)
            elif hasattr(t, 'elts'):
                for x in t.elts:
                    targets(x)
        from fpy2.transform.path import walk_exprs
        for _, e in walk_exprs(self.ast):
            if isinstance(e, ListComp):
                for t in e.targets:
                    targets(t)
        return names

    # -- per run state ---------------------------------------------------------------------
    def reset(self):
        self.writer = {}        # NamedId -> AssignDef that last bound it
        self.env = {}           # NamedId -> current value
        self.sizevars = {}      # size variable -> observed length
        self.entry_sizes = []   # (argument, value at entry, size bound): judged when the run returns
        self.pending_size = []  # size witnesses of the current run: reported if it returns
        self.args_repr = None

    def on_enter(self, ast, vals):
        from fpy2.ast.fpyast import NamedId
        self.reset()
        for arg, v in zip(ast.args, vals):
            if isinstance(arg.name, NamedId):
                d = self.du.site_to_def.get((arg.name, arg))
                if d is not None:
                    self.writer[arg.name] = d
                    # what is said of an argument holds whether or not the run ever reads it -- on a run that returns (a run
                    # stopped by an unconditional assert or a strict zip owes the fact nothing): judged by on_returned()
                    if self.asz is not None and d in self.asz.by_def:
                        self.entry_sizes.append((arg, v, self.asz.by_def[d]))
                self.env[arg.name] = v
        for name in ast.free_vars:
            d = self.du.site_to_def.get((name, ast))
            if d is not None:
                self.writer[name] = d

    def on_returned(self):
        """the run returned: lists are never resized, so the arguments still have their entry lengths"""
        for arg, v, bound in self.entry_sizes:
            self.check_size(arg, v, bound)
        self.entry_sizes = []
        # a length the analysis takes from an unconditional assert / strict zip is reported for every read of the list, also
        # the reads before that statement: a run it stops owes those nothing, so what was seen of sizes counts once the run returned
        for w in self.pending_size:
            if w['_key'] not in self.seen_keys:
                self.seen_keys.add(w.pop('_key'))
                self.found.append(w)
        self.pending_size = []

    # -- reporting -----------------------------------------------------------------------
    def fail(self, analysis, node, problem, **more):
        key = (analysis, id(node), problem[:40])
        if key in self.seen_keys:
            return
        if analysis != 'size':
            self.seen_keys.add(key)
        try:
            where = node.format()
        except Exception:
            where = repr(node)[:120]
        w = {'property': PROP, 'analysis': analysis, 'problem': problem, 'at': where[:300], 'args': self.args_repr, 'source': self.source,
             'mechanism': {'analysis': analysis, 'node': type(node).__name__}}
        if analysis == 'size':
            # F86: a list stored into a slot through an alias of the container (n = m; n[0] = [..]) - sizes follow the written name only
            w['mechanism']['list_store_through_alias'] = bool(_ALIAS_STORE.search(self.source or ''))
        w.update(more)
        if analysis == 'size':
            w['_key'] = key
            self.pending_size.append(w)
            return
        self.found.append(w)

    # -- expression facts ---------------------------------------------------------------
    def on_expr(self, e, v):
        from fpy2.ast.fpyast import Var
        if self.ti is not None:
            ty = self.ti.by_expr.get(e)
            if ty is not None:
                self.counts['type'] += 1
                if type(ty).__name__ != 'VarType':
                    self.nt.add(('type', id(e)))
                why = self.shape_mismatch(v, ty)
                if why:
                    self.fail('type', e, f'value does not have the inferred type {ty.format()}: {why}', value=repr(v)[:200])
        if self.asz is not None and e in self.asz.by_expr:
            self.check_size(e, v, self.asz.by_expr[e])
        if self.vc is not None:
            cls = self.vc.by_expr.get(e)
            if cls is not None:
                c = self.class_of(v)
                if c is not None:
                    self.counts['class'] += 1
                    if cls != type(cls).TOP:
                        self.nt.add(('class', id(e)))
                    if not (c & cls):
                        self.fail('class', e, f'value {v!r} is {c} but the reported classes are {cls}')
        if self.pe is not None and e in self.pe.by_expr:
            want = self.pe.by_expr[e]
            self.counts['const'] += 1
            self.nt.add(('const', id(e)))
            if not self.same_value(v, want):
                self.fail('const', e, f'expression reported constant {want!r} evaluated to {v!r}')
        if isinstance(e, Var):
            self.check_defuse(e)

    # type shapes
    def shape_mismatch(self, v, ty):
        from fpy2.types import BoolType, RealType, ListType, TupleType, ContextType, VarType
        from fpy2.number import Float, Context
        if isinstance(ty, VarType):
            return None
        if isinstance(ty, BoolType):
            return None if isinstance(v, bool) else f'{type(v).__name__} is not a bool'
        if isinstance(ty, RealType):
            return None if (isinstance(v, (Float, Fraction, int)) and not isinstance(v, bool)) else f'{type(v).__name__} is not a number'
        if isinstance(ty, ContextType):
            return None if isinstance(v, Context) else f'{type(v).__name__} is not a context'
        if isinstance(ty, ListType):
            if not isinstance(v, list):
                return f'{type(v).__name__} is not a list'
            if isinstance(ty.length, int) and len(v) != ty.length:
                return f'list of length {len(v)}, static length {ty.length}'
            for x in v:
                r = self.shape_mismatch(x, ty.elt)
                if r:
                    return 'element: ' + r
            return None
        if isinstance(ty, TupleType):
            if not isinstance(v, tuple):
                return f'{type(v).__name__} is not a tuple'
            if len(v) != len(ty.elts):
                return f'tuple of {len(v)} fields, type has {len(ty.elts)}'
            for x, t in zip(v, ty.elts):
                r = self.shape_mismatch(x, t)
                if r:
                    return 'field: ' + r
            return None
        return None

    def check_size(self, e, v, bound):
        from fpy2.analysis.array_size import ListSize, TupleSize
        if bound is None:
            return
        if isinstance(bound, ListSize):
            if not isinstance(v, list):
                return
            self.counts['size'] += 1
            sz = bound.size
            if isinstance(sz, int):
                self.nt.add(('size', id(e)))
                if len(v) != sz:
                    self.fail('size', e, f'list of length {len(v)} where the inferred static length is {sz}', value=repr(v)[:200])
            elif sz is not None:
                prev = self.sizevars.get(sz)
                if prev is None:
                    self.sizevars[sz] = (len(v), e)
                else:
                    self.nt.add(('size', id(e)))
                    if prev[0] != len(v):
                        try:
                            other = prev[1].format()
                        except Exception:
                            other = '?'
                        self.fail('size', e, f'two lists reported equal-length (size variable {sz}) have lengths {prev[0]} and {len(v)}', other=other[:200])
            for x in v:
                self.check_size(e, x, bound.elt)
        elif isinstance(bound, TupleSize):
            if isinstance(v, tuple) and len(v) == len(bound.elts):
                for x, b in zip(v, bound.elts):
                    self.check_size(e, x, b)

    def class_of(self, v):
        from fpy2.number import Float
        from fpy2.analysis.value_class import ValueClass
        if isinstance(v, bool):
            return None
        if isinstance(v, Float):
            if v.isnan:
                return ValueClass.NAN
            if v.isinf:
                return ValueClass.INF
            return ValueClass.ZERO if v.is_zero() else ValueClass.FINITE
        if isinstance(v, (Fraction, int)):
            return ValueClass.ZERO if v == 0 else ValueClass.FINITE
        return None

    def same_value(self, a, b):
        from ..gen.run import norm
        try:
            return norm(a) == norm(b)
        except Exception:
            return True

    # def-use
    def allowed(self, d):
        from fpy2.analysis.reaching_defs import PhiDef
        out, stack, seen = set(), [d], set()
        while stack:
            x = stack.pop()
            if id(x) in seen:
                continue
            seen.add(id(x))
            if isinstance(x, PhiDef):
                stack.append(self.du.defs[x.lhs])
                stack.append(self.du.defs[x.rhs])
            else:
                out.add(id(x))
        return out

    def check_defuse(self, e):
        from fpy2.analysis.reaching_defs import PhiDef
        name = e.name
        if name in self._comp_targets or name not in self.writer:
            return
        try:
            d = self.du.find_def_from_use(e)
        except KeyError:
            return
        self.counts['defuse'] += 1
        if isinstance(d, PhiDef):
            self.nt.add(('defuse', id(e)))
        w = self.writer[name]
        if id(w) not in self.allowed(d):
            try:
                wsite = w.site.format()
            except Exception:
                wsite = repr(w.site)[:100]
            self.fail('defuse', e, f'read of `{name}` observes the binding at `{wsite.splitlines()[0][:120]}`, which is not among the definitions reported as reaching it')

    # -- bindings ---------------------------------------------------------------------------
    def bind_names(self, site, target, v):
        from fpy2.ast.fpyast import NamedId, TupleBinding
        if isinstance(target, NamedId):
            d = self.du.site_to_def.get((target, site))
            if d is not None:
                self.writer[target] = d
            self.env[target] = v
            self.check_alias(target, v)
        elif isinstance(target, TupleBinding):
            if isinstance(v, tuple) and len(v) == len(target.elts):
                for t, x in zip(target.elts, v):
                    self.bind_names(site, t, x)

    def on_bind(self, stmt, v):
        from fpy2.ast.fpyast import Assign, IndexedAssign, ContextStmt
        if isinstance(stmt, Assign):
            self.bind_names(stmt, stmt.target, v)
        elif isinstance(stmt, IndexedAssign):
            d = self.du.site_to_def.get((stmt.var, stmt))
            if d is not None:
                self.writer[stmt.var] = d
        elif isinstance(stmt, ContextStmt):
            self.bind_names(stmt, stmt.target, v)

    def on_iter_bind(self, stmt, x):
        self.bind_names(stmt, stmt.target, x)

    def check_alias(self, name, v):
        if self.al is None or not isinstance(v, list) or name not in self.writer:
            return
        dn = self.writer[name]
        for m, mv in self.env.items():
            if m is name or m == name or m not in self.writer:
                continue
            dm = self.writer[m]
            if mv is v:
                self.counts['alias'] += 1
                self.nt.add(('alias', id(dn), id(dm)))
                if not self.al.may_alias(dn, dm):
                    self.fail('alias', dn.site, f'`{name}` and `{m}` are bound to the same list but may_alias is False')
            elif isinstance(mv, list) and any(x is v for x in mv):
                self.counts['alias'] += 1
                self.nt.add(('alias', id(dn), id(dm)))
                ra, rb = self.al.region_of(dn, 0), self.al.region_of(dm, 1)
                if ra is None or rb is None or ra is not rb:
                    self.fail('alias', dn.site, f'`{name}` is bound to an element list of `{m}` but its region differs from the elements region of `{m}`')
            elif isinstance(v, list) and any(x is mv for x in v) and isinstance(mv, list):
                self.counts['alias'] += 1
                self.nt.add(('alias', id(dn), id(dm)))
                ra, rb = self.al.region_of(dn, 1), self.al.region_of(dm, 0)
                if ra is None or rb is None or ra is not rb:
                    self.fail('alias', dn.site, f'`{m}` is bound to an element list of `{name}` but its region differs from the elements region of `{name}`')


XOPS = ('cbrt', 'roundint', 'nearbyint', 'fabs', 'copysign', 'fdim', 'fmod', 'remainder', 'hypot', 'fmin', 'fmax', 'mod', 'powop', 'pow',
        'nan', 'inf', 'round_exact', 'fst', 'snd', 'logb', 'round_at')
XPREDS = ('isnan', 'isinf', 'isfinite', 'signbit', 'isnormal')

PROFILES = [
    dict(),
    dict(extra_ops=XOPS, extra_prob=0.3, preds=XPREDS, pred_prob=0.3, w_if=4, w_const=2),
    dict(extra_ops=XOPS, extra_prob=0.2, preds=XPREDS, pred_prob=0.35, w_if=6, w_if1=3, w_with=4, return_in_arm_prob=0.2),
    dict(w_alias=3, w_index_assign=3, w_listdef=3, const_list_prob=0.3, nested_lists=True, w_for=4, w_tuple=2),
    dict(w_listdef=5, list_redefine_prob=0.6, const_list_prob=0.5, w_if=4, w_if1=4, w_for=3, w_while=2, slices=True),
    dict(w_if=5, w_if1=3, w_while=2, w_for=4, w_const=3, w_copy=2, max_depth=4),
    dict(w_if=8, return_in_arm_prob=0.45, w_const=3, w_assign=6, w_early_return=1.5, max_depth=4, max_stmts=7),
    dict(w_with=5, computed_ctx_prob=0.3, w_const=4, w_freevar=2),
    dict(w_for=6, w_if=5, w_if1=4, w_assert=3, len_assert_prob=0.7, zip_two_lists_prob=0.7, w_listdef=3, const_list_prob=0.5, max_depth=4, w_tuplelist=1),
]
ARGS = [('R', 'R', 'L'), ('R', 'L'), ('R', 'R'), ('R', 'B', 'L'), ('L', 'L', 'R'), ('R', 'LL', 'L'), ('R', 'T', 'L'), ('R', 'LL')]


_ALIAS_STORE = re.compile(r'^\s*(\w+) = (\w+)\n(?:.*\n)*?\s*\1\[[^\]=]*\] = \[', re.M)


DIRECTED = [
    # +0 on one path, -0 on the other: not one constant
    'with fp.INTEGER:\n        v = -0.0 * 0.5\n    if x1 < 0:\n        with fp.MPFloatContext(4):\n            v = v * (-v)\n    return 1 / v',
    # a one-element sum passes its element through a context without NaN
    'with FX:\n        s = sum(xs1)\n        t = sum([x1])\n        u = min(x1, x2) + 0\n    return (s, t, u)',
    # aliasing through an otherwise unconstrained parameter, elements, slices, tuples
    'ys = xs1\n    zs = ys\n    t = (zs, x1)\n    a, b = t\n    ws = a[0:1]\n    return (ys, ws, b)',
    'rows = [xs1, xs1]\n    r = rows[0]\n    q = rows[1]\n    for row in rows:\n        k = row\n    return (r, q)',
    # stores through one, two and three indices with a list-valued right-hand side; the slot is then reached by indexing and by iteration
    'c3 = [[[xs1, xs1], [xs1]], [[xs1, xs1], [xs1]]]\n    ys = [x1, x2]\n    c3[1][0][1] = ys\n    r = c3[1][0][1]\n    for plane in c3:\n        for row in plane:\n            for cell in row:\n                k = cell\n    c2 = [[xs1], [xs1]]\n    zs = [x2]\n    c2[1][0] = zs\n    q = c2[1][0]\n    return (r, q, ys, zs)',
    'c3 = [[[xs1]], [[xs1]]]\n    ys = [x1, x2, x1]\n    i = 1\n    c3[i][0][0] = ys\n    p = c3[i]\n    w = p[0]\n    r = w[0]\n    return (r, ys, len(r))',
    'm = [[x1, x1], [x1, x1]]\n    n = m\n    n[0] = [x1, x1, x1]\n    t = m[0]\n    return (t, len(t))',
    # sizes: slices, rebinding in branches and loops, zip / enumerate
    'ys = [x1, x2, 3]\n    if x1 < x2:\n        ys = [x1, x2]\n    zs = ys[1:]\n    ws = [a + b for a, b in zip(ys, ys)]\n    return (len(ys), zs, ws)',
    'ys = [x1]\n    for i in range(3):\n        ys = [x2, x2, x1] if x1 > i else [e for e in ys]\n    zs = [e for e in ys]\n    return (ys, zs)',
    'ys = [1, 2, 3, 4]\n    k = 0\n    while k < 2:\n        ys = ys[1:]\n        with fp.INTEGER:\n            k = k + 1\n    return (ys, len(ys))',
    # class refinement ladders and phis
    'r = x1\n    if fp.isnan(x1):\n        r = 0\n    elif fp.isinf(x1):\n        r = 1\n    elif x1 == 0:\n        r = 2\n    else:\n        r = fp.logb(x1)\n    if x2 != 0:\n        r = r / x2\n    else:\n        r = x2\n    return r',
    'v = 1\n    for e in xs1:\n        if e > 0:\n            v = e\n        else:\n            v = v * e\n    w = v\n    k = 0\n    while k < 2 and v == v:\n        v = v / x2\n        with fp.INTEGER:\n            k = k + 1\n    return (v, w)',
    # a nested if/else with one returning arm inside an outer if/else
    'y = x1\n    if x1 > 0:\n        if x2 > 0:\n            return 7\n        else:\n            y = 2\n    else:\n        y = 1\n    z = y\n    return z + y',
    # a strict zip / a length assertion inside an arm that is not taken says nothing of the argument -- also when another
    # conditional construct (comprehension, if-expression, inner if, loop) was entered and left earlier in the same arm
    'acc = 0\n    if x1 > 0:\n        sq = [e * e for e in xs1]\n        for a, k in zip(xs1, [1, 2]):\n            acc = acc + a * k + sq[0]\n    return acc',
    'acc = 0\n    ys = [x1, x2, x1]\n    if x1 > 0:\n        w = 2 if len(xs1) > 1 else 1\n        for a, b in zip(xs1, ys):\n            acc = acc + w * a * b\n    return acc',
    'r = 0\n    ys = [x1, x2]\n    if x1 > 0:\n        if len(xs1) > 0:\n            r = xs1[0]\n        assert len(xs1) == len(ys)\n    return r',
    'r = 0\n    for i in range(2):\n        if x2 > i:\n            for j in range(1):\n                r = r + j\n            assert len(xs1) == 1\n    return (r, xs1)',
    'r = 0\n    k = 0\n    while k < 2 and x1 > 0:\n        for e in xs1:\n            r = r + e\n        for a, b in zip(xs1, [1, 2, 3]):\n            r = r + a * b\n        with fp.INTEGER:\n            k = k + 1\n    return r',
    # finite operands under a format whose overflow is a NaN (no infinity) / an infinity / a saturation: the class of the rounded
    # result has to admit what the format substitutes
    'with fp.MX_E4M3:\n        a = 1e3 * 1e3\n        b = a + 1\n        c = fp.round(449) + x1 * 0\n    with fp.S1E5M2:\n        d = fp.round(1e9)\n    with fp.MX_E3M2:\n        e = 100 * 100\n    with fp.FP16:\n        g = 1e3 * 1e3\n    return (a, b, c, d, e, g)',
    # every classification predicate, both arms, alone and under not / and / or: what is *not* normal includes the subnormals
    'if fp.isnormal(x1):\n        a = x1\n    else:\n        a = abs(x1)\n    if not fp.isfinite(x2):\n        b = 0\n    else:\n        b = x2\n    if fp.isnan(x1) or fp.isinf(x2):\n        c = 1\n    else:\n        c = x1 * x2\n    if not (fp.isnormal(x2) and fp.isfinite(x1)):\n        d = x2 + x1\n    else:\n        d = x1\n    e = (x1 if not fp.isnormal(x1) else 2)\n    return (a, b, c, d, e)',
    # constants under nested contexts, redefinition after a copy
    'a = 0.1 + 0.2\n    with C3:\n        b = 0.1 + 0.2\n        with MF:\n            c = b / 3\n    d = a\n    a = x1\n    if x1 > 0:\n        d = 7\n    return (a, b, c, d)',
]


def directed_sources():
    from ..gen import prog as genprog
    return [genprog.HEADER + '\n@fp.fpy\ndef f(x1, x2, xs1):\n    ' + body + '\n' for body in DIRECTED]


def shard(i: int, n: int, tier: str, seed: int) -> Result:
    import fpy2 as fp
    from ..gen import prog as genprog, run as genrun
    from ..monitors.trace import run_traced

    res = Result(PROP, tier, seed)
    rng = random.Random(seed * 99991 + i)
    quick = tier == 'quick'
    nprog = (1600 if quick else 30000) // n
    ninputs = 8 if quick else 12
    counts = {a: 0 for a in ANALYSES}
    nontriv = {a: 0 for a in ANALYSES}
    analysis_errors = {}
    with genrun.Scratch(prefix='vf-c13-') as work:
        pool = [0.0, -0.0, 1.0, -2.5, 0.1, 7.0, float('inf'), float('-inf'), float('nan'), 3, -1.0, 5e-324, -2.2250738585072014e-308]
        for di, src in enumerate(directed_sources()):
            if di % n != i:
                continue
            try:
                mod = genprog.load_module(src, work, 'c13d')
                chk = FactChecker(mod.f, res, src[src.find('def f('):])
            except Exception as e:
                res.count(f'directed_rejected:{type(e).__name__}')
                res.extra.setdefault('directed_errors', []).append(f'{di}: {type(e).__name__}: {str(e)[:200]}')
                continue
            res.count('directed_programs')
            for k, v in chk.errors.items():
                analysis_errors[f'directed {di} {k}:{v[:80]}'] = 1
            for a in pool:
                for b in pool:
                    for xs in ([a], [b, a], [a, b, 1.0], []):
                        args = [a, b, xs]
                        chk.args_repr = repr(args)
                        out = genrun.guarded(lambda: run_traced(mod.f, genrun.copy.deepcopy(args), None, chk), timeout=8.0)
                        if out[0] == 'ok':
                            chk.on_returned()
                        res.count('run_returned' if out[0] == 'ok' else 'run_raised')
                    if chk.found:
                        break
                if chk.found:
                    break
            for w in chk.found[:2]:
                w['mechanism']['directed'] = di
                res.violate(w)
            res.evaluations += sum(chk.counts.values())
            res.nontrivial += len(chk.nt)
            for a in ANALYSES:
                counts[a] += chk.counts[a]
            for key in chk.nt:
                nontriv[key[0]] += 1
            genprog.unload(mod)
        for pi in range(nprog):
            if len(res.violations) >= 25:
                res.count('stopped_early_violations')
                break
            kw = dict(rng.choice(PROFILES))
            kw['args'] = rng.choice(ARGS)
            prof = genprog.profile(**kw)
            g = genprog.Gen(rng, prof)
            try:
                p = g.program()
                mod = genprog.load_module(p.source, work, 'c13')
            except Exception as e:
                res.count(f'rejected:{type(e).__name__}')
                continue
            shown = p.source[p.source.find('K3 = 3') + 7:]
            try:
                chk = FactChecker(mod.f, res, shown)
            except Exception as e:
                res.count(f'analysis_setup_error:{type(e).__name__}')
                genprog.unload(mod)
                continue
            for k, v in chk.errors.items():
                key = f'{k}:{v.split(":")[0]}'
                analysis_errors[key] = analysis_errors.get(key, 0) + 1
            res.count('programs')
            for k in range(ninputs):
                args = genprog.gen_args(rng, p)
                ctx = rng.choice([None, None, fp.FP32, fp.MPFloatContext(5)])
                chk.args_repr = repr(args) + f' ctx={ctx!r}'[:80]
                out = genrun.guarded(lambda: run_traced(mod.f, genrun.copy.deepcopy(args), ctx, chk), timeout=8.0)
                if out[0] == 'ok':
                    chk.on_returned()
                if out[0] == 'timeout':
                    res.count('run_timeout')
                elif out[0] == 'exc':
                    res.count('run_raised')        # facts about the values produced before the raise were still checked
                else:
                    res.count('run_returned')
                if chk.found:
                    break
            for w in chk.found[:2]:
                res.violate(w)
            res.evaluations += sum(chk.counts.values())
            res.nontrivial += len(chk.nt)
            for a in ANALYSES:
                counts[a] += chk.counts[a]
            for key in chk.nt:
                nontriv[key[0]] += 1
            if pi < 1:
                res.sample({'program': shown[:700]})
            genprog.unload(mod)
    res.extra['facts_checked'] = counts
    res.extra['facts_nontrivial'] = nontriv
    res.extra['analysis_errors'] = analysis_errors
    return res


def main(tier: str) -> int:
    s = get_seed()
    res = Result(PROP, tier, s, rule=RULE)
    res.assumptions = ['values are observed by a tracing subclass of the real bytecode compiler (vf/monitors/trace.py); the hooks return their argument unchanged',
                       'facts are checked on the values produced up to a raise as well; only list identities created by the language routes occur (helpers return numbers)',
                       'programs the analyses reject (TypeInferError ...) are counted in analysis_errors and contribute no facts for that analysis']
    run_shards('vf.checks.c13', 16 if tier == 'quick' else 48, tier, s, timeout=1500 if tier == 'quick' else 3400, res=res)
    if not res.violations:
        fc = res.extra.get('facts_nontrivial', {})
        low = [a for a in ANALYSES if fc.get(a, 0) < 50]
        if low:
            res.inconclusive.append(f'analyses with fewer than 50 constraining facts observed: {low}')
    return finish(res)


if __name__ == '__main__':
    shard_main(shard)
