"""
C12 -- translation to and from FPCore preserves meaning.

Differential monitor: generated programs of the FPCore-expressible subset are
decorated by the real @fp.fpy, compiled by the real FPCoreCompiler and
evaluated by titanfp's MPMF interpreter (the reference FPCore evaluator the
property names); the compiled core is read back by Function.from_fpcore, both
in memory and after printing and re-parsing its s-expression:

    titanfp(core)(args)             == f(*args)          (compile)
    from_fpcore(core)(*args)        == titanfp(core)(args)   (read back)
    from_fpcore(parse(print(core))) == f(*args)          (round trip)

A structural monitor checks, input-independently, that the innermost `!`
annotation enclosing each marked division in the core carries the precision
and rounding mode of the `with` block that encloses it in the source.
"""
from __future__ import annotations

import random
import re
import traceback
from fractions import Fraction

from ..common import Result, finish, run_shards, seed as get_seed, shard_main

PROP = 'C12'
RULE = ('one evaluation = one (program, argument vector) comparison on one of the three routes (compile / read back / printed round trip) or one marked '
        'operation whose enclosing annotation was compared with its source context; non-trivial = comparisons on programs with at least two different '
        'rounding contexts and a statement after an inner block')

CTXS = [('fp.FP16', 'binary16', 'nearestEven'), ('fp.FP32', 'binary32', 'nearestEven'), ('fp.FP64', 'binary64', 'nearestEven'),
        ('fp.IEEEContext(8, 32, fp.RM.RTZ)', 'binary32', 'toZero'), ('fp.IEEEContext(5, 16, fp.RM.RTP)', 'binary16', 'toPositive'),
        ('fp.IEEEContext(11, 64, fp.RM.RTN)', 'binary64', 'toNegative'), ('fp.IEEEContext(4, 8)', '(float 4 8)', 'nearestEven'),
        ('fp.IEEEContext(5, 16, fp.RM.RAZ)', 'binary16', 'awayZero'), ('fp.IEEEContext(8, 32, fp.RM.RNA)', 'binary32', 'nearestAway'),
        ('fp.IEEEContext(6, 20, fp.RM.RTZ)', '(float 6 20)', 'toZero'),
        # interchange widths with a non-interchange exponent size: no shorthand may be used for them
        ('fp.IEEEContext(8, 16)', '(float 8 16)', 'nearestEven'), ('fp.IEEEContext(6, 16, fp.RM.RTZ)', '(float 6 16)', 'toZero'),
        ('fp.IEEEContext(5, 32)', '(float 5 32)', 'nearestEven'), ('fp.IEEEContext(8, 64, fp.RM.RTP)', '(float 8 64)', 'toPositive')]
FUNC_CTXS = [None, None, 'fp.FP32', 'fp.FP16', 'fp.IEEEContext(8, 32, fp.RM.RTP)']


XOPS1 = ['cbrt', 'ceil', 'floor', 'trunc', 'roundint']
XFUNS = ['exp', 'log', 'sin', 'cos', 'atan', 'tanh', 'exp2', 'log2', 'expm1', 'log1p']
XOPS2 = ['copysign', 'fmod', 'remainder']
XPREDS = ['isnan', 'isinf', 'isfinite', 'signbit']


class Gen:
    """programs of the FPCore-expressible subset; every `/ <marker>` division carries a unique integer literal >= 1000"""

    def __init__(self, rng):
        self.rng = rng
        self.k = 0
        self.marks = {}       # marker literal -> (precision, round) expected for the operation
        self.lines = []
        self.nctx = set()
        self.after_inner = False

    def fresh(self, p='v'):
        self.k += 1
        return f'{p}{self.k}'

    def mark(self, scope):
        m = 1000 + len(self.marks)
        self.marks[m] = scope
        return m

    def expr(self, vars_, d, scope):
        r = self.rng
        if d <= 0 or r.random() < 0.25:
            if getattr(self, 'has_list', False) and r.random() < 0.25:
                return r.choice(['sum(xs)', 'xs[0]', 'xs[2]', 'len(xs)', 'sum([e * 2 for e in xs])', 'min(xs[0], xs[1])', 'sum([a * b for a, b in zip(xs, xs)])',
                                 'sum([p + q * 10 for p in xs for q in xs])'])
            if vars_ and r.random() < 0.7:
                return r.choice(vars_)
            return r.choice(['1', '2', '3', '7', 'fp.round(0.1)', 'fp.round(2.5)', 'fp.round(1e-3)', '10'])
        op = r.choice(['+', '-', '*', '/', 'mark', 'mark', 'neg', 'abs', 'sqrt', 'fma', 'ifexpr', 'min', 'max'])
        a = lambda: self.expr(vars_, d - 1, scope)
        if r.random() < 0.16:
            # the other operators the FPCore tables map one to one (backend/fpc.py and frontend/fpc.py).  Left out because the reference
            # evaluator deviates (measured on titanfp alone, DESIGN 6.2): nearbyint (ignores the rounding mode: 1.5 -> 1 under nearestEven),
            # fdim (NaN for equal infinities, C says +0), isnormal (FPCore: relative to the precision; FPy: of the unrounded argument),
            # hypot (NaN for hypot(inf, NaN), C and IEEE 754 say +inf),
            # transcendental functions under a directed mode (expm1 / log1p one ulp off under toPositive); copysign's sign operand is
            # kept away from NaN (the sign of a NaN is not part of the value)
            nearest = scope[1] in ('nearestEven', 'nearestAway')
            x = r.choice(XOPS1 + XOPS2 + ['predsel', 'powi'] + (XFUNS if nearest else []))
            if x in ('exp', 'exp2', 'expm1'):
                # titanfp lets MPFR's overflow trap escape (gmpy2 SignedOverflow) instead of returning an infinity
                return f'fp.{x}(min({a()}, 5))'
            if x in XOPS1 or x in XFUNS:
                return f'fp.{x}({a()})'
            if x == 'copysign':
                b = a()
                return f'fp.copysign({a()}, ({b} if {b} == {b} else 1))'
            if x in XOPS2:
                return f'fp.{x}({a()}, {a()})'
            if x == 'powi':
                return f'fp.pow({a()}, {r.choice(["2", "3", "-1"])})'
            return f'({a()} if fp.{r.choice(XPREDS)}({a()}) else {a()})'
        if op in '+-*/':
            return f'({a()} {op} {a()})'
        if op == 'mark':
            return f'({a()} / {self.mark(scope)})'
        if op == 'neg':
            return f'(-{a()})'
        if op == 'abs':
            return f'abs({a()})'
        if op == 'sqrt':
            return f'fp.sqrt(abs({a()}))'
        if op == 'fma':
            return f'fp.fma({a()}, {a()}, {a()})'
        if op == 'ifexpr':
            if r.random() < 0.25:
                # comparison chains: each link is a comparison of neighbours, nothing else (a != b != c says nothing of a and c)
                first = a()
                last = first if r.random() < 0.5 else a()      # equal ends: where "neighbours differ" and "all distinct" part ways
                return f'({a()} if {first} {r.choice(["!=", "!=", "<", "<=", "=="])} {a()} {r.choice(["!=", "!=", "<", ">="])} {last} else {a()})'
            return f'({a()} if {a()} {r.choice(["<", "<=", ">", "=="])} {a()} else {a()})'
        return f'{op}({a()}, {a()})'

    def block(self, vars_, ind, depth, n, scope, must_assign=None):
        r = self.rng
        vars_ = list(vars_)
        pad = '    ' * ind
        for j in range(n):
            kinds = ['assign', 'assign', 'assign', 'aug']
            if depth > 0:
                kinds += ['with', 'with', 'if', 'if2', 'if1', 'while', 'for', 'tuple']
            kind = r.choice(kinds)
            if depth > 0 and getattr(self, 'has_list', False) and r.random() < 0.12:
                kind = 'narrowsum'
            if kind == 'narrowsum':
                # a reduction under a context narrower than the elements it folds: the fold starts from the first element as it is
                # (no rounded 0 + xs[0]), so a one-to-one translation must not round it either
                q, v = self.fresh('q'), self.fresh()
                text, prec, rnd = r.choice([c for c in CTXS if c[1] in ('(float 4 8)', 'binary16', '(float 6 16)', '(float 8 16)')])
                self.nctx.add(text)
                form = r.random()
                if form < 0.5:
                    self.lines.append(f'{pad}{q} = [e / 3 for e in xs]')
                    src = q
                else:
                    src = 'xs'
                self.lines.append(f'{pad}with {text}:')
                self.lines.append(f'{pad}    {v} = {r.choice([f"sum({src})", f"sum({src}) + sum(xs)", f"min(sum({src}), 7)"])}')
                vars_.append(v)
                continue
            if kind == 'assign':
                v = r.choice(vars_) if r.random() < 0.35 else self.fresh()
                self.lines.append(f'{pad}{v} = {self.expr(vars_, 2, scope)}')
                if v not in vars_:
                    vars_.append(v)
            elif kind == 'aug':
                v = r.choice(vars_)
                self.lines.append(f'{pad}{v} {r.choice(["+=", "-=", "*=", "/="])} {self.expr(vars_, 1, scope)}')
            elif kind == 'with':
                text, prec, rnd = r.choice(CTXS)
                self.nctx.add(text)
                self.lines.append(f'{pad}with {text}:')
                inner = self.block(vars_, ind + 1, depth - 1, r.randint(1, 3), (prec, rnd))
                vars_ = inner
                if j < n - 1:
                    self.after_inner = True
            elif kind == 'if':
                # both arms assign the same (existing or new) variable
                v = r.choice(vars_) if r.random() < 0.5 else self.fresh()
                self.lines.append(f'{pad}if {self.expr(vars_, 1, scope)} {r.choice(["<", "<=", ">", ">="])} {self.expr(vars_, 1, scope)}:')
                self.lines.append(f'{pad}    {v} = {self.expr(vars_, 2, scope)}')
                self.lines.append(f'{pad}else:')
                self.lines.append(f'{pad}    {v} = {self.expr(vars_, 2, scope)}')
                if v not in vars_:
                    vars_.append(v)
            elif kind == 'if2':
                # both arms rebind one or two existing variables AND introduce one or two new ones, assigned in different orders in
                # the two arms; the new names sort before, between and after the existing ones (the lowering packs the changed
                # variables into a tuple after each arm and unpacks it after the statement)
                old = r.sample(vars_, min(len(vars_), r.choice([1, 1, 2])))
                new = [self.fresh(r.choice(['a', 'd', 'm', 'w', 'z'])) for _ in range(r.choice([1, 1, 2]))]
                self.lines.append(f'{pad}if {self.expr(vars_, 1, scope)} {r.choice(["<", "<=", ">", ">="])} {self.expr(vars_, 1, scope)}:')
                for arm in (0, 1):
                    if arm:
                        self.lines.append(f'{pad}else:')
                    names = old + new
                    r.shuffle(names)
                    for v in names:
                        self.lines.append(f'{pad}    {v} = {self.expr(vars_, 2, scope)}')
                vars_ += new
                self.features = getattr(self, 'features', set()) | {'if_rebinds_and_introduces'}
            elif kind == 'if1':
                v = r.choice(vars_)
                self.lines.append(f'{pad}if {self.expr(vars_, 1, scope)} {r.choice(["<", ">"])} {self.expr(vars_, 1, scope)}:')
                self.lines.append(f'{pad}    {v} = {self.expr(vars_, 2, scope)}')
            elif kind == 'while':
                k = self.fresh('k')
                v = r.choice(vars_)
                self.lines.append(f'{pad}{k} = 0')
                if r.random() < 0.06:
                    # a condition that is itself a compound expression (let / if in the core): re-evaluated on every iteration
                    self.lines.append(f'{pad}while min({k}, {k} + 1) < {r.choice([1, 2, 3])}:')
                else:
                    self.lines.append(f'{pad}while {k} < {r.choice([1, 2, 3])}:')
                self.lines.append(f'{pad}    {v} = {self.expr(vars_, 2, scope)}')
                self.lines.append(f'{pad}    {k} = {k} + 1')
            elif kind == 'for':
                i = self.fresh('i')
                v = r.choice(vars_)
                if getattr(self, 'has_list', False) and r.random() < 0.5:
                    self.lines.append(f'{pad}for {i} in xs:')
                elif r.random() < 0.4:
                    # start / stop / step forms: lengths that are not stop - start
                    self.lines.append(f'{pad}for {i} in range({r.choice(["0, 7, 3", "1, 6, 2", "2, 5", "0, 5, 5", "1, 8, 3", "0, 4, 1"])}):')
                else:
                    self.lines.append(f'{pad}for {i} in range({r.choice([1, 2, 3, 4])}):')
                if r.random() < 0.3:
                    self.lines.append(f'{pad}    {v} = {v} + {i}')
                else:
                    self.lines.append(f'{pad}    {v} = {self.expr(vars_ + [i], 2, scope)}')
            elif kind == 'tuple':
                a, b = self.fresh(), self.fresh()
                self.lines.append(f'{pad}{a}, {b} = ({self.expr(vars_, 1, scope)}, {self.expr(vars_, 1, scope)})')
                vars_ += [a, b]
        return vars_

    def program(self):
        r = self.rng
        fctx = r.choice(FUNC_CTXS)
        scope = ('binary64', 'nearestEven')
        deco = '@fp.fpy'
        if fctx is not None:
            deco = f'@fp.fpy(ctx={fctx})'
            scope = next((p, rd) for t, p, rd in CTXS + [('fp.IEEEContext(8, 32, fp.RM.RTP)', 'binary32', 'toPositive')] if t == fctx)
        self.has_list = r.random() < 0.4
        sig = 'def f(x, y, xs: list[fp.Real]):' if self.has_list else 'def f(x, y):'
        self.lines = ['import fpy2 as fp', '', deco, sig]
        vars_ = self.block(['x', 'y'], 1, 3, r.randint(3, 7), scope)
        self.lines.append(f'    return {self.expr(vars_, 2, scope)}')
        return '\n'.join(self.lines) + '\n'


# ---------------------------------------------------------------------------------------------

def to_mpmf(x):
    import fpy2 as fp
    from titanfp.arithmetic.mpmf import MPMF
    if isinstance(x, list):
        return [to_mpmf(v) for v in x]
    f = x if isinstance(x, fp.Float) else fp.Float.from_float(float(x))
    return MPMF(negative=f.s, exp=f.exp, c=f.c, isinf=f.isinf, isnan=f.isnan)


def norm_titan(v):
    from titanfp.arithmetic.mpmf import MPMF
    if isinstance(v, bool):
        return ('b', v)
    if isinstance(v, MPMF) or hasattr(v, 'isnan'):
        if v.isnan:
            return ('n', 'nan')
        if v.isinf:
            return ('n', '-inf' if v.negative else '+inf')
        val = Fraction(v.c) * Fraction(2) ** v.exp
        return ('n', bool(v.negative), val)
    try:
        return ('t', tuple(norm_titan(x) for x in v))
    except TypeError:
        return ('?', repr(v)[:60])


def norm_fpy(v):
    from ..gen.run import norm
    n = norm(v)
    if n[0] == 'l':
        return ('t', n[1])
    return n


def annotation_map(core):
    """marker literal -> (precision text, round) of the innermost annotation with a precision that encloses the division by it"""
    import titanfp.fpbench.fpcast as fpc
    out = {}

    def val(d):
        v = d.value if isinstance(d, fpc.Data) else d
        if isinstance(v, (tuple, list)):
            return '(' + ' '.join(str(getattr(x, 'value', x)) for x in v) + ')'
        return str(getattr(v, 'value', v))

    def walk(e, prec, rnd):
        """generic descent over every Expr reachable through the node's attributes; only `!` changes the scope"""
        if isinstance(e, fpc.Ctx):
            p = e.props.get('precision')
            r = e.props.get('round')
            walk(e.body, val(p) if p is not None else prec, val(r) if r is not None else rnd)
            return
        if isinstance(e, fpc.Div):
            rhs = e.children[1]
            lit = rhs.body if isinstance(rhs, fpc.Ctx) else rhs
            if isinstance(lit, fpc.Integer) and lit.i >= 1000:
                out.setdefault(lit.i, set()).add((prec, rnd))
        if isinstance(e, fpc.Expr):
            for v in vars(e).values():
                walk(v, prec, rnd)
        elif isinstance(e, (list, tuple)):
            for v in e:
                walk(v, prec, rnd)

    return out, walk


# every value is representable in binary16 (hence in every declared function context): FPCore evaluators round the
# arguments to the core's precision on entry, FPy never does, so only such arguments make the two comparable
class DirectedOverflowWatch:
    """titanfp does not follow IEEE 754 for an overflow under a directed rounding mode (toZero / toNegative give +inf for a positive
    overflow, toPositive gives the largest finite value); FPy does (see C01).  The watch notes when an FPy run overflowed under a
    directed mode, so that the run is counted and not compared."""

    def __init__(self, fp):
        self.cls = fp.IEEEContext
        self.nearest = (fp.RM.RNE, fp.RM.RNA)
        self.hit = False
        self.subnormal_tie = False
        self.orig = {}

    def __enter__(self):
        watch = self
        for name in ('round', 'round_at'):
            orig = getattr(self.cls, name)
            self.orig[name] = self.cls.__dict__.get(name)

            def wrapper(ctx, *a, _orig=orig, **k):
                r = _orig(ctx, *a, **k)
                try:
                    if ctx.rm not in watch.nearest:
                        # an operand beyond the largest finite value: IEEE 754 (and FPy) return the largest finite value
                        # or an infinity depending on direction -- with or without raising the overflow flag -- while
                        # titanfp overflows to an infinity once |x| passes the round-to-nearest threshold
                        x = a[0]
                        if r.overflow or (not (getattr(x, 'isnan', False) or getattr(x, 'isinf', False)) and abs(x) > ctx.maxval()):
                            watch.hit = True
                    else:
                        # a tie at the bottom of the subnormal range (|x| = q/2 or 3q/2, q the smallest subnormal): titanfp
                        # resolves it differently per format (binary16 nearestEven: 3q/2 -> q; binary32, (float 4 8): q/2 -> q),
                        # IEEE 754 and FPy go to the even multiple of q (0 and 2q).  Measured with (* x y) on titanfp alone.
                        x = a[0]
                        if not (getattr(x, 'isnan', False) or getattr(x, 'isinf', False)):
                            ax = abs(x.as_rational() if hasattr(x, 'as_rational') else Fraction(x))
                            q = Fraction(2) ** ctx.expmin
                            if ax * 2 in (q, 3 * q):
                                watch.hit = True
                                watch.subnormal_tie = True
                except Exception:
                    pass
                return r
            setattr(self.cls, name, wrapper)
        return self

    def __exit__(self, *a):
        for name, o in self.orig.items():
            if o is None:
                delattr(self.cls, name)
            else:
                setattr(self.cls, name, o)


ARG_POOL = [0.0, -0.0, 1.0, -1.0, 0.5, 1.5, -2.5, 3.0, 0.0999755859375, 7.0, 100.0, 2.0 ** -14, 2.0 ** -24, 65504.0, -3.75, 0.333251953125, 1024.0, -0.0078125,
            float('inf'), float('-inf'), float('nan'), 2.0, -3.0]


def shard(i: int, n: int, tier: str, seed: int) -> Result:
    import fpy2 as fp
    from fpy2 import FPCoreCompiler
    from titanfp.arithmetic.mpmf import Interpreter
    from titanfp.fpbench import fpcparser
    from ..gen import prog as genprog, run as genrun

    res = Result(PROP, tier, seed)
    rng = random.Random(seed * 52361 + i)
    quick = tier == 'quick'
    nprog = (640 if quick else 12000) // n
    ninputs = 6 if quick else 10
    compile_errors = {}
    with genrun.Scratch(prefix='vf-c12-') as work:
        for pi in range(nprog):
            if len(res.violations) >= 25:
                res.count('stopped_early_violations')
                break
            g = Gen(rng)
            src = g.program()
            try:
                mod = genprog.load_module(src, work, 'c12')
            except Exception as e:
                res.count(f'rejected:{type(e).__name__}')
                continue
            f = mod.f
            if g.has_list:
                # FPCore tensors need a known size: pin the list parameter to length 3
                from fpy2.ast.fpyast import ListTypeAnn, RealTypeAnn
                for arg in f.ast.args:
                    if isinstance(arg.type, ListTypeAnn):
                        arg.type = ListTypeAnn(RealTypeAnn(None, None), 3, None)
            shown = src[src.find('@fp.fpy'):]
            rich = len(g.nctx) >= 2 and g.after_inner
            try:
                core = FPCoreCompiler(unsafe_int_cast=True).compile(f)
            except Exception as e:
                key = f'{type(e).__name__}: {str(e)[:60]}'
                compile_errors[key] = compile_errors.get(key, 0) + 1
                res.count('compile_refused')
                genprog.unload(mod)
                continue
            res.count('programs')

            def viol(route, problem, **more):
                w = {'property': PROP, 'route': route, 'problem': problem, 'source': shown, 'core': core.sexp[:3000],
                     'mechanism': {'route': route, 'kind': more.pop('kind', 'value'),
                                   # program shapes behind known findings (F79, F80): named so that only programs having them are excused
                                   'multi_generator_comprehension': ' for p in xs for q in xs' in shown,
                                   'compound_while_condition': 'while min(' in shown}}
                w.update(more)
                res.violate(w)

            # ---- structural monitor: annotations of marked operations -------------------------------
            try:
                fscope = ('binary64', 'nearestEven')
                if core.props.get('precision') is not None:
                    amap0, walk = annotation_map(core)
                    pv = core.props['precision']
                    rv = core.props.get('round')
                    import titanfp.fpbench.fpcast as fpc

                    def v_(d):
                        v = d.value if isinstance(d, fpc.Data) else d
                        if isinstance(v, (tuple, list)):
                            return '(' + ' '.join(str(getattr(x, 'value', x)) for x in v) + ')'
                        return str(getattr(v, 'value', v))
                    fscope = (v_(pv), v_(rv) if rv is not None else 'nearestEven')
                amap, walk = annotation_map(core)
                walk(core.e, fscope[0], fscope[1])
                for m, want in g.marks.items():
                    got = amap.get(m)
                    if got is None:
                        res.count('marker_not_found')      # e.g. in a branch the compiler folded away
                        continue
                    res.evaluations += 1
                    res.nontrivial += rich
                    if got != {want}:
                        viol('annotation', f'the division by {m} is written under {want} in the source but its innermost annotation in the core is {sorted(got)}',
                             kind='annotation')
                        break
            except Exception as e:
                res.count(f'structural_monitor_error:{type(e).__name__}')
                res.extra.setdefault('structural_errors', [])
                if len(res.extra['structural_errors']) < 3:
                    res.extra['structural_errors'].append(''.join(traceback.format_exception(e))[-600:])

            # ---- read back (in memory and printed) ------------------------------------------------------
            back = {}
            routes = [('read_back', lambda: fp.Function.from_fpcore(core))]
            if g.has_list:
                # titanfp's own printer writes a tensor argument as "(xs3)" (no space), which its parser rejects: no printed form to re-read
                res.count('printed_form_unusable_tensor_argument')
            else:
                routes.append(('round_trip_printed', lambda: fp.Function.from_fpcore(fpcparser.compile(core.sexp)[0])))
            for route, thunk in routes:
                out = genrun.guarded(thunk, timeout=20.0)
                if out[0] == 'ok':
                    back[route] = out[1]
                elif out[0] == 'exc':
                    res.evaluations += 1
                    viol(route, f'reading the compiled core back raised {type(out[1]).__name__}: {str(out[1])[:200]}', kind='read_back_raises',
                         exception=type(out[1]).__name__)
                else:
                    res.count('read_back_timeout')

            # ---- differential evaluation -------------------------------------------------------------------
            bad = False
            for _ in range(ninputs):
                args = [rng.choice(ARG_POOL), rng.choice(ARG_POOL)]
                if g.has_list:
                    args.append([rng.choice(ARG_POOL) for _ in range(3)] if _ != 1 else [-0.0, -0.0, -0.0])
                with DirectedOverflowWatch(fp) as watch:
                    r0 = genrun.call(f, args, timeout=8.0)
                if r0[0] == 'timeout':
                    res.count('fpy_timeout')
                    continue
                if watch.hit:
                    res.count('subnormal_tie_not_compared' if watch.subnormal_tie else 'directed_overflow_not_compared')
                    continue
                t = genrun.guarded(lambda: Interpreter().interpret(core, [to_mpmf(a) for a in args]), timeout=20.0)
                if t[0] == 'timeout':
                    res.count('titanfp_timeout')
                    continue
                want = ('ok', norm_fpy_result(r0)) if r0[0] == 'ok' else ('exc', r0[1])
                got = ('ok', norm_titan(t[1])) if t[0] == 'ok' else ('exc', type(t[1]).__name__)
                res.evaluations += 1
                res.nontrivial += rich
                if want[0] == 'ok' and got[0] == 'ok':
                    if want[1] != got[1]:
                        viol('compile', 'titanfp evaluates the compiled core to a different value than the FPy interpreter', args=repr(args),
                             fpy=genrun.show(want[1]), fpcore=genrun.show(got[1]))
                        bad = True
                        break
                    res.count('agree_compile')
                elif want[0] != got[0]:
                    # one side raises: FPCore has no exceptions; counted, judged only when FPy returns and titanfp fails
                    if want[0] == 'ok' and got[1] in ('SignedOverflow', 'SignedUnderflow', 'OverflowResultError', 'UnderflowResultError'):
                        # gmpy2's MPFR range traps escaping from titanfp (exp of a huge / hugely negative argument): a limitation of the
                        # reference evaluator, which has no value to compare with; counted
                        res.count('titanfp_mpfr_range_trap_not_compared')
                        continue
                    if want[0] == 'ok':
                        viol('compile', f'titanfp raises {got[1]} on the compiled core where the FPy interpreter returns a value', args=repr(args),
                             fpy=genrun.show(want[1]), kind='titanfp_raises', exception=got[1])
                        bad = True
                        break
                    res.count('fpy_raises_only')
                for route, gfn in list(back.items()):
                    r1 = genrun.call(gfn, args, timeout=8.0)
                    if r1[0] == 'timeout':
                        # counted (wall clock is no verdict); the route is not tried on the remaining inputs of this program
                        res.count('read_back_eval_timeout')
                        del back[route]
                        continue
                    res.evaluations += 1
                    res.nontrivial += rich
                    have = ('ok', norm_fpy_result(r1)) if r1[0] == 'ok' else ('exc', r1[1])
                    ref = got if route == 'read_back' else want
                    if have[0] == 'ok' and ref[0] == 'ok':
                        if have[1] != ref[1]:
                            viol(route, 'the function read back from the core evaluates differently from ' + ('the core under titanfp' if route == 'read_back' else 'the original function'),
                                 args=repr(args), read_back=genrun.show(have[1]), reference=genrun.show(ref[1]), read_back_program=gfn.format()[:2500])
                            bad = True
                            break
                        res.count('agree_' + route)
                    elif have[0] == 'exc' and have[1] == 'SyntaxError' and 'nested' in str(r1[2]):
                        # CPython refuses more than 20 statically nested blocks; the read-back program nests one `with` per
                        # annotation of the core.  A limit of the host, not a different meaning: counted
                        res.count('read_back_exceeds_python_nesting_limit')
                    elif have[0] != ref[0] and ref[0] == 'ok':
                        viol(route, f'the function read back from the core raises {have[1]} where the reference returns a value', args=repr(args),
                             reference=genrun.show(ref[1]), kind='read_back_eval_raises', exception=have[1], read_back_program=gfn.format()[:2500])
                        bad = True
                        break
                if bad:
                    break
            if pi < 1:
                res.sample({'program': shown[:600], 'core': core.sexp[:600]})
            genprog.unload(mod)
    res.extra['compile_errors'] = compile_errors
    return res


def norm_fpy_result(r):
    """normalised FPy outcome ('ok', norm) -> same shape as norm_titan (lists and tuples both 't')"""
    n = r[1]

    def conv(x):
        if x[0] in ('l', 't'):
            return ('t', tuple(conv(y) for y in x[1]))
        return x
    return conv(n)


def main(tier: str) -> int:
    s = get_seed()
    res = Result(PROP, tier, s, rule=RULE)
    res.assumptions = ['titanfp\'s MPMF interpreter is the reference FPCore evaluator; arguments are binary64 values',
                       'programs the FPCore compiler refuses (FPCoreCompileError) are counted, not judged',
                       'marked operations are divisions by a unique integer literal >= 1000; a marker the compiler does not emit is counted']
    run_shards('vf.checks.c12', 16, tier, s, timeout=1700 if tier == 'quick' else 3400, res=res)
    c = res.counters
    if not res.violations:
        if c.get('agree_compile', 0) < 500 or c.get('agree_read_back', 0) < 300:
            res.inconclusive.append(f"too few agreeing comparisons: compile {c.get('agree_compile', 0)}, read back {c.get('agree_read_back', 0)}")
    return finish(res)


if __name__ == '__main__':
    shard_main(shard)
