"""
C18 -- evaluation is pure, isolated from the caller and reentrant.

Per shard a pool of functions is built deterministically from the seed
(generated programs whose helpers mutate their list parameters, hand-written
MPFR-heavy functions under several rounding modes, transformed copies, all
named `f` in different modules).  A *reference table* (function, arguments,
caller context) -> outcome is computed by a fresh subprocess in canonical
order (plus single-call subprocesses for a sample); then, in this process:

  isolation  every call: deep snapshot of the arguments (structure, object
             identities, Float fields incl. flags and ctx) before == after;
             the result graph shares no list object with the arguments
  history    a random sequence of evaluations interleaved with operations on
             process-wide state (gmpy2 context changes, new decorations,
             simplify / unroll / inline of pool members, site listings,
             with_rt copies, float()/str() conversions): every outcome equals
             the reference
  schedules  8 threads evaluate shuffled keys concurrently (tiny switch
             interval; sys.monitoring LINE events in fpy2's interpreter /
             ops / engines yield the GIL at random): every outcome equals the
             reference; distinct interleavings are counted
"""
from __future__ import annotations

import copy
import hashlib
import json
import os
import random
import subprocess
import sys
import threading
import time

from ..common import Result, finish, run_shards, seed as get_seed, shard_main

PROP = 'C18'
RULE = ('one evaluation = one call of a pool function whose outcome was compared with the fresh-process reference (and whose arguments were snapshotted before / after); '
        'non-trivial = calls made after at least one perturbing operation or concurrently with other threads, distinct by (pool entry, arguments, context, phase)')

HAND = '''
@fp.fpy
def f(x, y):
    a = fp.sin(x) + fp.exp(y)
    with fp.MPFloatContext(7, fp.RM.RTZ):
        b = fp.log(abs(x) + 1) * fp.cos(y)
    with fp.IEEEContext(5, 16, fp.RM.RTP):
        c = fp.sqrt(abs(a * b)) + fp.const_pi()
    return (a, b, c)
''', '''
@fp.fpy(ctx=fp.FP32)
def f(x, y):
    t = fp.atan(x) / fp.tanh(y + 1)
    with fp.FixedContext(True, -6, 16, fp.RM.RNE, fp.OV.SATURATE):
        u = fp.exp2(t) - fp.round(x)
    return u * t
''', '''
@fp.fpy
def f(x, y):
    s = 0
    for i in range(6):
        with fp.MPFloatContext(4 + i, fp.RM.RAZ):
            s = s + fp.sin(x + i) * y
    return s
''', '''
@fp.fpy
def g(zs, k):
    zs[0] = zs[0] + k
    return zs

@fp.fpy
def f(x, y):
    xs = [x, y, x + y]
    ys = g(xs, 1)
    ws = g(ys, fp.const_e())
    return (xs, ys[0:2], ws[2])
''', '''
@fp.fpy(ctx=fp.IEEEContext(4, 8, fp.RM.RTN))
def f(x, y):
    r = fp.fma(x, y, fp.const_ln2()) / 3
    return (r, fp.floor(r), r == r)
''', '''
@fp.fpy
def f(x, y):
    xs = range(1, 6)
    s = xs[2] + xs[0]
    xs[2] = x * 10
    for e in xs:
        s = s + e
    ys = range(4)
    s = s + ys[0]
    ys[0] = y
    zs = [x, y, 3]
    ws = zs[0:2]
    ws[0] = s
    return (s, ys, range(1, 6), zs, [i * 2 for i in range(3)])
''', '''
@fp.fpy
def f(x, y):
    with fp.MPSFloatContext(5, -8, fp.RM.RTO):
        a = fp.log1p(abs(x)) + fp.expm1(y / 8)
    with fp.REAL:
        b = a * a - a
    return fp.round(b) + fp.cbrt(x)
'''


# functions taking structured arguments (a tuple holding a list, a list of tuples of lists, a list next to a tuple of it) that
# write into / return the inner lists: (body, argument vectors)
HAND_STRUCT = [('''
@fp.fpy
def f(t, y):
    xs, s = t
    xs[0] = xs[0] + y
    return (xs, s + y)
''', [[([1.0, 2.0], 3.0), 0.5], [([0.25], -1.0), 2.0], [([3.0, 4.0, 5.0], 0.0), -0.5]]), ('''
@fp.fpy
def f(ts, y):
    a, b = ts[0]
    a[0] = y
    b[0] = a[0] * 2
    return ts
''', [[[([1.0], [2.0])], 0.5], [[([1.5, 2.5], [3.0]), ([4.0], [5.0])], -2.0]]), ('''
@fp.fpy
def f(t, y):
    p, q = t
    us, vs = p
    us[0] = us[0] + y
    ws = vs
    ws[0] = q
    return (p, ws)
''', [[(([1.0, 2.0], [3.0]), 4.0), 0.5], [(([0.5], [0.25, 8.0]), -1.0), 1.5]]), ('''
@fp.fpy
def f(rows, y):
    r = rows[1]
    r[0] = y
    rows[0][0] = r[0] + rows[0][0]
    return (rows[0], r)
''', [[[[1.0, 2.0], [3.0, 4.0]], 0.5], [[[0.5], [0.25]], -3.0]])]


def build_pool(seed: int, work: str, tier: str):
    """deterministic pool: list of entries {name, fn, args:[...], ctxs:[...]}; every entry's function is called `f` in its own module"""
    import fpy2 as fp
    from ..gen import prog as genprog
    rng = random.Random(seed)
    entries = []
    ctxs = [None, fp.FP32, fp.MPFloatContext(5, fp.RM.RTZ), fp.FixedContext(True, -4, 14, fp.RM.RNE, fp.OV.SATURATE), fp.REAL, fp.IEEEContext(4, 8, fp.RM.RTN),
            fp.IEEEContext(5, 16, fp.RM.RAZ)]
    prof = genprog.profile(helpers=2, mutate_helper_prob=0.7, w_index_assign=4, w_alias=2, w_listdef=2, w_call=3, ret_types=('R', 'L', 'T', 'L'),
                           args=lambda r: r.choice([('R', 'R', 'L'), ('R', 'L'), ('L', 'L', 'R'), ('R', 'LL', 'L'), ('R', 'T', 'L')]))
    ngen = 14 if tier == 'quick' else 30
    for k in range(ngen):
        g = genprog.Gen(rng, prof)
        try:
            p = g.program()
            mod = genprog.load_module(p.source, work, f'c18p{k}')
        except Exception:
            continue
        args = [genprog.gen_args(rng, p) for _ in range(3)]
        entries.append({'name': f'gen{k}', 'fn': mod.f, 'args': args, 'ctxs': [ctxs[j] for j in rng.sample(range(len(ctxs)), 3)], 'mod': mod, 'program': p})
    pool_vals = [0.5, -1.25, 3.0, 1e-3, 7.75, -0.0, 100.0, 2]
    for k, body in enumerate(HAND):
        src = 'import fpy2 as fp\nfrom fpy2 import *\n' + body
        try:
            mod = genprog.load_module(src, work, f'c18h{k}')
        except Exception:
            continue
        args = [[rng.choice(pool_vals), rng.choice(pool_vals)] for _ in range(3)]
        entries.append({'name': f'hand{k}', 'fn': mod.f, 'args': args, 'ctxs': [None, ctxs[2], ctxs[5]], 'mod': mod, 'program': None})
    for k, (body, argvs) in enumerate(HAND_STRUCT):
        src = 'import fpy2 as fp\nfrom fpy2 import *\n' + body
        try:
            mod = genprog.load_module(src, work, f'c18s{k}')
        except Exception:
            continue
        entries.append({'name': f'struct{k}', 'fn': mod.f, 'args': argvs, 'ctxs': [None, ctxs[1], ctxs[5]], 'mod': mod, 'program': None, 'always_float_args': True})
    # transformed copies (deterministic: same transformations in the reference process)
    from fpy2 import strategies as S
    base = list(entries)
    for e in base[: (8 if tier == 'quick' else 20)]:
        for tname, tf in (('simplify', lambda f: S.simplify(f)), ('unroll_for', lambda f: S.unroll_for(f, times=1)), ('inline', lambda f: S.inline(f))):
            try:
                g2 = tf(e['fn'])
            except Exception:
                continue
            entries.append({'name': f"{e['name']}+{tname}", 'fn': g2, 'args': e['args'], 'ctxs': e['ctxs'][:2], 'mod': None, 'program': e['program']})
    return entries


def keys_of(entries):
    out = []
    for ei, e in enumerate(entries):
        for ai in range(len(e['args'])):
            for ci in range(len(e['ctxs'])):
                out.append((ei, ai, ci))
    return out


def outcome(e, ai, ci, timeout=10.0):
    from ..gen import run as genrun
    args = copy.deepcopy(e['args'][ai])
    r = genrun.call(e['fn'], args, ctx=e['ctxs'][ci], timeout=timeout)
    return encode(r)


def encode(r):
    from ..gen import run as genrun
    if r[0] == 'ok':
        return 'ok:' + genrun.show(r[1])
    if r[0] == 'timeout':
        return 'timeout'
    return 'exc:' + r[1]


def reference_main(argv):
    """python -m vf.checks.c18 --ref <seed> <tier> [--one ei ai ci]  -> JSON table on stdout"""
    from ..gen import run as genrun
    seed, tier = int(argv[0]), argv[1]
    one = None
    if len(argv) > 2 and argv[2] == '--one':
        one = tuple(int(x) for x in argv[3:6])
    with genrun.Scratch(prefix='vf-c18r-') as work:
        entries = build_pool(seed, work, tier)
        table = {}
        for (ei, ai, ci) in ([one] if one else keys_of(entries)):
            if ei >= len(entries):
                continue
            table[f'{ei},{ai},{ci}'] = outcome(entries[ei], ai, ci)
        print('@@REF ' + json.dumps({'n': len(entries), 'names': [e['name'] for e in entries], 'table': table}))


def fresh_reference(seed, tier, one=None):
    env = dict(os.environ)
    cmd = [sys.executable, '-m', 'vf.checks.c18', '--ref', str(seed), tier]
    if one is not None:
        cmd += ['--one'] + [str(x) for x in one]
    r = subprocess.run(cmd, capture_output=True, text=True, env=env, timeout=900)
    for line in r.stdout.splitlines():
        if line.startswith('@@REF '):
            return json.loads(line[6:])
    raise RuntimeError('reference process failed: ' + r.stderr[-400:])


# ---------------------------------------------------------------------------------------------

def snap(v):
    from fpy2.number import Float
    if isinstance(v, list):
        return ('l', id(v), tuple(snap(x) for x in v))
    if isinstance(v, tuple):
        return ('t', id(v), tuple(snap(x) for x in v))
    if isinstance(v, Float):
        # the slots themselves (identity of the RealFloat payload and of the context) plus every observable field and flag
        fl = tuple(bool(getattr(v, a)) for a in ('inexact', 'overflow', 'invalid', 'divzero', 'carry', 'tiny_pre', 'tiny_post', 'underflow_pre', 'underflow_post'))
        return ('F', id(v), id(v._real), bool(v.s), v.c, v.exp, bool(v.isinf), bool(v.isnan), fl, id(v.ctx), repr(getattr(v._real, 'flags', None)))
    return ('p', type(v).__name__, repr(v))


def list_ids(v, acc):
    if isinstance(v, list):
        acc.add(id(v))
        for x in v:
            list_ids(x, acc)
    elif isinstance(v, tuple):
        for x in v:
            list_ids(x, acc)
    return acc


_VLOCK = threading.Lock()


def _violate(res, w):
    with _VLOCK:
        res.violate(w)


def monitored_call(res, e, ai, ci, ref, phase, key, float_args=False):
    """call with the isolation monitor around it; returns the encoded outcome"""
    import fpy2 as fp
    from ..gen import run as genrun
    args = copy.deepcopy(e['args'][ai])
    if float_args:
        # arguments as Float objects carrying flags and a context: the call must not touch them
        c = fp.IEEEContext(5, 16)

        def conv(v):
            if isinstance(v, list):
                return [conv(x) for x in v]
            if isinstance(v, tuple):
                return tuple(conv(x) for x in v)
            if isinstance(v, bool) or not isinstance(v, (int, float)):
                return v
            return c.round(v)
        args = [conv(a) for a in args]
    before = snap(args)
    ids = list_ids(args, set())
    try:
        raw = None
        old = genrun.signal.signal(genrun.signal.SIGALRM, genrun._alarm) if threading.current_thread() is threading.main_thread() else None
        if old is not None:
            genrun.signal.setitimer(genrun.signal.ITIMER_REAL, 10.0)
        try:
            raw = e['fn'](*args, ctx=e['ctxs'][ci]) if e['ctxs'][ci] is not None else e['fn'](*args)
            enc = 'ok:' + genrun.show(genrun.norm(raw))
        except genrun.CallTimeout:
            enc = 'timeout'
        except RecursionError:
            enc = 'exc:RecursionError'
        except Exception as ex:
            enc = 'exc:' + type(ex).__name__
        finally:
            if old is not None:
                genrun.signal.setitimer(genrun.signal.ITIMER_REAL, 0)
                genrun.signal.signal(genrun.signal.SIGALRM, old)
    except genrun.CallTimeout:
        enc = 'timeout'
    after = snap(args)
    if after != before:
        _violate(res, {'property': PROP, 'monitor': 'isolation', 'problem': 'an argument object was modified by the call', 'entry': e['name'], 'phase': phase,
                     'args_before': repr(e['args'][ai])[:300], 'args_after': repr(args)[:300],
                     'source': e['program'].source[-1500:] if e.get('program') else None,
                     'mechanism': {'monitor': 'isolation', 'kind': 'argument_modified', 'float_args': float_args}})
    if raw is not None and (list_ids(raw, set()) & ids):
        _violate(res, {'property': PROP, 'monitor': 'isolation', 'problem': 'the returned value shares a list object with an argument', 'entry': e['name'], 'phase': phase,
                     'args': repr(e['args'][ai])[:300], 'source': e['program'].source[-1500:] if e.get('program') else None,
                     'mechanism': {'monitor': 'isolation', 'kind': 'result_aliases_argument'}})
    if not float_args and enc != 'timeout':
        want = ref.get(key)
        if want is not None and want != 'timeout' and want != enc:
            _violate(res, {'property': PROP, 'monitor': phase, 'problem': f'outcome differs from the fresh-process reference during {phase}', 'entry': e['name'],
                         'args': repr(e['args'][ai])[:300], 'ctx': repr(e['ctxs'][ci])[:120], 'reference': want[:300], 'observed': enc[:300],
                         'source': e['program'].source[-1500:] if e.get('program') else None,
                         'mechanism': {'monitor': phase, 'kind': 'outcome_differs'}})
    return enc


def perturb(rng, entries, work, counters):
    """operations on process-wide state between evaluations"""
    import fpy2 as fp
    import gmpy2
    from ..gen import prog as genprog
    from fpy2 import strategies as S
    k = rng.randrange(9)
    try:
        if k == 0:
            c = gmpy2.get_context()
            c.precision = rng.choice([2, 10, 53, 200])
            c.round = rng.choice([gmpy2.RoundUp, gmpy2.RoundDown, gmpy2.RoundToZero, gmpy2.RoundToNearest])
            counters['gmpy2_context_changed'] = counters.get('gmpy2_context_changed', 0) + 1
        elif k == 1:
            src = 'import fpy2 as fp\n@fp.fpy\ndef f(x, y):\n    return x * %d + y\n' % rng.randrange(100)
            m = genprog.load_module(src, work, 'c18new')
            m.f(1.0, 2.0)
            genprog.unload(m, keep_caches=True)
            counters['decorated_new_f'] = counters.get('decorated_new_f', 0) + 1
        elif k == 2:
            e = rng.choice(entries)
            g = S.simplify(e['fn'])
            g(*copy.deepcopy(e['args'][0]))
            counters['simplified_and_ran'] = counters.get('simplified_and_ran', 0) + 1
        elif k == 3:
            e = rng.choice(entries)
            S.sites(S.unroll_for, e['fn'])
            S.sites(S.inline, e['fn'])
            counters['listed_sites'] = counters.get('listed_sites', 0) + 1
        elif k == 4:
            e = rng.choice(entries)
            from fpy2.interpret import get_default_interpreter
            g = e['fn'].with_rt(type(get_default_interpreter())())
            g(*copy.deepcopy(e['args'][0]))
            counters['with_rt_copy_ran'] = counters.get('with_rt_copy_ran', 0) + 1
        elif k == 5:
            x = fp.FP32.round(rng.random())
            float(x), str(x), repr(x), hash(x)
            counters['conversions'] = counters.get('conversions', 0) + 1
        elif k == 6:
            e = rng.choice(entries)
            e['fn'](*copy.deepcopy(e['args'][0]), ctx=rng.choice([fp.MPFloatContext(2), fp.FP64, fp.MPFixedContext(-1), fp.IEEEContext(3, 6, fp.RM.RTP)]))
            counters['ran_under_other_ctx'] = counters.get('ran_under_other_ctx', 0) + 1
        elif k == 7:
            e = rng.choice(entries)
            g = S.unroll_for(e['fn'], times=2)
            g(*copy.deepcopy(e['args'][0]))
            counters['unrolled_and_ran'] = counters.get('unrolled_and_ran', 0) + 1
        else:
            fp.sin(0.3, ctx=fp.MPFloatContext(rng.choice([3, 40, 300]), rng.choice(list(fp.RM)[:5])))
            counters['direct_op_call'] = counters.get('direct_op_call', 0) + 1
    except Exception:
        counters['perturbation_raised'] = counters.get('perturbation_raised', 0) + 1


def transient_copies(res, rng, entries, quick):
    """
    Transformed copies of one function that are derived, called once and dropped, alternately, as a tuning loop does: the
    result of each call has to be the one the same derivation gives while both copies are held alive (no object of the first
    copy can be mistaken for one of the second).  Freed copies make CPython reuse addresses, so anything the interpreter
    remembers by identity of a dropped function / AST shows up here and nowhere else in the pool, whose functions live forever.
    """
    import gc
    import fpy2 as fp
    from fpy2 import strategies as S
    from ..gen import run as genrun
    pins = [fp.MPFloatContext(3), fp.FP64, fp.MPFloatContext(5, fp.RM.RTZ), fp.IEEEContext(4, 8)]
    cands = [e for e in entries if e.get('mod') is not None and not e['name'].startswith('struct')]
    rng.shuffle(cands)
    done = 0
    for e in cands:
        if done >= (6 if quick else 40):
            break
        fn = e['fn']
        args = e['args'][0]
        derivs = []
        for c in pins:
            derivs.append(lambda c=c: S.monomorphize(fn, c))
            derivs.append(lambda c=c: S.simplify(S.monomorphize(fn, c)))
        held, refs = [], []
        try:
            for d in derivs:
                g = d()
                held.append(g)
                refs.append(genrun.call(g, copy.deepcopy(args), ctx=None, timeout=8.0))
        except Exception:
            res.count('transient:derivation_refused')
            continue
        if any(r[0] == 'timeout' for r in refs):
            continue
        if len({repr(r) for r in refs}) < 2:
            res.count('transient:copies_indistinguishable')
            continue
        done += 1
        del held
        gc.collect()
        for step in range(60 if quick else 200):
            j = rng.randrange(len(derivs)) if step % 3 else step // 3 % len(derivs)
            g = derivs[j]()
            r = genrun.call(g, copy.deepcopy(args), ctx=None, timeout=8.0)
            del g
            if step % 16 == 15:
                gc.collect()
            if r[0] == 'timeout':
                continue
            res.evaluations += 1
            res.nontrivial += 1
            res.count('transient:calls')
            if repr(r) != repr(refs[j]):
                res.violate({'property': PROP, 'monitor': 'history', 'problem': 'a freshly derived copy of a function returns something else than the same derivation did '
                             'before other derived copies of that function were evaluated and dropped',
                             'entry': e['name'], 'derivation': j, 'expected': str(refs[j])[:300], 'got': str(r)[:300],
                             'source': e['program'].source[-1200:] if e.get('program') else None,
                             'mechanism': {'monitor': 'history', 'kind': 'transient_copy'}})
                break
    res.count('transient:functions', done)


class YieldInjector:
    """sys.monitoring LINE callback: in fpy2's interpreter / ops / number code, sleep(0) with probability p (thread-local RNG)"""

    def __init__(self, p, seed):
        self.p = p
        self.seed = seed
        self.local = threading.local()
        self.fired = 0
        self.tool = None

    def _want(self, code):
        fn = code.co_filename
        return ('/fpy2/interpret/' in fn or fn.endswith('/fpy2/ops.py') or '/fpy2/number/' in fn or fn.startswith('<') or 'vfgen_' in fn)

    def cb(self, code, line):
        if not self._want(code):
            return sys.monitoring.DISABLE
        r = getattr(self.local, 'rng', None)
        if r is None:
            r = self.local.rng = random.Random(self.seed * 1000003 + threading.get_ident() % 9973)
        if r.random() < self.p:
            self.fired += 1
            time.sleep(0)

    def __enter__(self):
        mon = sys.monitoring
        for tid in (mon.PROFILER_ID, mon.COVERAGE_ID, 4, 3):
            try:
                mon.use_tool_id(tid, 'vf-c18')
                self.tool = tid
                break
            except ValueError:
                continue
        if self.tool is None:
            return self
        mon.register_callback(self.tool, mon.events.LINE, self.cb)
        mon.set_events(self.tool, mon.events.LINE)
        return self

    def __exit__(self, *a):
        if self.tool is not None:
            mon = sys.monitoring
            mon.set_events(self.tool, 0)
            mon.register_callback(self.tool, mon.events.LINE, None)
            mon.free_tool_id(self.tool)


def shard(i: int, n: int, tier: str, seed: int) -> Result:
    from ..gen import run as genrun
    res = Result(PROP, tier, seed)
    quick = tier == 'quick'
    pool_seed = seed * 1000 + i
    rng = random.Random(seed * 7771 + i)
    t0 = time.time()
    try:
        refdoc = fresh_reference(pool_seed, tier)
    except Exception as e:
        res.inconclusive.append(f'reference subprocess failed: {str(e)[:200]}')
        return res
    ref = refdoc['table']
    with genrun.Scratch(prefix='vf-c18-') as work:
        entries = build_pool(pool_seed, work, tier)
        if len(entries) != refdoc['n'] or [e['name'] for e in entries] != refdoc['names']:
            res.inconclusive.append('pool of the reference process differs from this process (generation is not deterministic)')
            return res
        keys = keys_of(entries)
        res.count('pool_entries', len(entries))
        res.count('reference_keys', len(ref))
        seen = set()

        def note(key, phase, nontrivial):
            res.evaluations += 1
            if nontrivial and (key, phase) not in seen:
                seen.add((key, phase))
                res.nontrivial += 1

        # -- single-call fresh processes for a sample ------------------------------------------
        for key in rng.sample(keys, 3 if quick else 10):
            try:
                one = fresh_reference(pool_seed, tier, one=key)['table']
            except Exception:
                res.count('single_call_reference_failed')
                continue
            ks = ','.join(map(str, key))
            res.evaluations += 1
            if one.get(ks) != ref.get(ks) and 'timeout' not in (one.get(ks), ref.get(ks)):
                res.violate({'property': PROP, 'monitor': 'history', 'problem': 'a single call in a fresh process differs from the same call after others in a fresh process',
                             'entry': entries[key[0]]['name'], 'single': str(one.get(ks))[:300], 'after_others': str(ref.get(ks))[:300],
                             'mechanism': {'monitor': 'history', 'kind': 'warm_state'}})
            res.count('single_call_references')

        # -- isolation, canonical order ---------------------------------------------------------
        for key in keys:
            ks = ','.join(map(str, key))
            monitored_call(res, entries[key[0]], key[1], key[2], ref, 'sequential', ks)
            note(ks, 'sequential', False)
            if rng.random() < 0.3 or entries[key[0]].get('always_float_args'):
                monitored_call(res, entries[key[0]], key[1], key[2], ref, 'sequential', ks, float_args=True)
                res.count('calls_with_float_arguments')

        # -- history -------------------------------------------------------------------------------
        counters = {}
        nsteps = 300 if quick else 4000
        for step in range(nsteps):
            if len(res.violations) >= 30:
                break
            if rng.random() < 0.35:
                perturb(rng, entries, work, counters)
            key = rng.choice(keys)
            ks = ','.join(map(str, key))
            monitored_call(res, entries[key[0]], key[1], key[2], ref, 'history', ks)
            note(ks, 'history', True)
        for k, v in counters.items():
            res.count('perturb:' + k, v)
        transient_copies(res, rng, entries, quick)

        # -- schedules ----------------------------------------------------------------------------------
        nthreads = 8
        rounds = 6 if quick else 40
        per_round = 10 if quick else 16
        starts = []
        sigs = set()
        lock = threading.Lock()
        old_switch = sys.getswitchinterval()
        sys.setswitchinterval(1e-5)
        injected = 0
        try:
            for rd in range(rounds):
                if len(res.violations) >= 30:
                    break
                chosen = rng.sample(keys, min(per_round, len(keys)))
                starts.clear()
                errors = []

                def worker(tid, order):
                    for key in order:
                        ks = ','.join(map(str, key))
                        starts.append((tid, ks))
                        try:
                            monitored_call(res, entries[key[0]], key[1], key[2], ref, 'threads', ks)
                        except Exception as ex:      # the monitor itself must not kill the thread silently
                            errors.append(repr(ex)[:200])
                        with lock:
                            note(ks, 'threads', True)

                inj = YieldInjector(0.02 if rd % 2 == 0 else 0.0, seed * 31 + rd)
                with inj:
                    ths = []
                    for tid in range(nthreads):
                        order = list(chosen)
                        random.Random(seed * 977 + rd * 31 + tid).shuffle(order)
                        ths.append(threading.Thread(target=worker, args=(tid, order)))
                    for t in ths:
                        t.start()
                    for t in ths:
                        t.join(timeout=300)
                    if any(t.is_alive() for t in ths):
                        res.inconclusive.append('a worker thread did not finish within the watchdog')
                        break
                injected += inj.fired
                if errors:
                    res.count('worker_errors', len(errors))
                    res.extra.setdefault('worker_errors', errors[:3])
                sigs.add(hashlib.sha1(repr(starts).encode()).hexdigest())
                # number of thread switches observed at the call boundary
                sw = sum(1 for a, b in zip(starts, starts[1:]) if a[0] != b[0])
                res.count('boundary_switches', sw)
                res.count('thread_rounds')
        finally:
            sys.setswitchinterval(old_switch)
        res.count('distinct_interleavings', len(sigs))
        res.count('yield_injections', injected)
        if len(res.samples) < 1:
            res.sample({'pool': [e['name'] for e in entries][:12], 'keys': len(keys), 'seconds': round(time.time() - t0, 1)})
        for e in entries:
            if e.get('mod') is not None:
                from ..gen import prog as genprog
                genprog.unload(e['mod'], keep_caches=True)
    return res


def main(tier: str) -> int:
    s = get_seed()
    res = Result(PROP, tier, s, rule=RULE)
    res.assumptions = ['the reference is the same pool evaluated once, in canonical order, in a fresh interpreter process (plus single-call processes for a sample)',
                       'yield points are injected only between Python statements (sys.monitoring LINE), where the interpreter may switch threads anyway',
                       'blind: free-threaded builds; interleavings inside gmpy2 / MPFR C code (the GIL is held there)']
    run_shards('vf.checks.c18', 16, tier, s, timeout=1700 if tier == 'quick' else 3400, res=res)
    c = res.counters
    if not res.violations:
        if c.get('distinct_interleavings', 0) < 50:
            res.inconclusive.append(f"only {c.get('distinct_interleavings', 0)} distinct interleavings observed")
        if c.get('boundary_switches', 0) < 500:
            res.inconclusive.append(f"only {c.get('boundary_switches', 0)} thread switches observed at call boundaries")
    return finish(res)


if __name__ == '__main__':
    if len(sys.argv) > 1 and sys.argv[1] == '--ref':
        reference_main(sys.argv[2:])
    else:
        shard_main(shard)
