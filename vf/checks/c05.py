"""
C05 -- number values behave as the real numbers they denote.

Exhaustive small encodings of RealFloat / Float (every redundant encoding,
zeros with arbitrary exponents, -0, inf, NaN) crossed with each other and with
int / float / Fraction operands; every operator result is compared with the
same operation on the denotations (Fractions + IEEE special rules).
"""
from __future__ import annotations

import math
import random
import sys
from fractions import Fraction

from ..common import Result, finish, run_shards, seed as get_seed, shard_main

PROP = 'C05'
RULE = ('one evaluation = one operator/comparison/hash/conversion result compared with the denotational oracle; '
        'non-trivial = distinct (operation, left operand encoding, right operand) tuples')


# -- denotations -------------------------------------------------------------

def den(x):
    """('nan',) | ('inf', neg) | ('fin', neg, Fraction magnitude) from fields only."""
    from fpy2.number import Float, RealFloat
    if isinstance(x, Float):
        if x.isnan:
            return ('nan',)
        if x.isinf:
            return ('inf', bool(x.s))
        return ('fin', bool(x.s), _mag(x.c, x.exp))
    if isinstance(x, RealFloat):
        return ('fin', bool(x.s), _mag(x.c, x.exp))
    if isinstance(x, bool):
        raise TypeError
    if isinstance(x, int):
        return ('fin', x < 0, Fraction(abs(x)))
    if isinstance(x, float):
        if math.isnan(x):
            return ('nan',)
        if math.isinf(x):
            return ('inf', x < 0)
        return ('fin', math.copysign(1.0, x) < 0, abs(Fraction(x)))
    if isinstance(x, Fraction):
        return ('fin', x < 0, abs(x))
    raise TypeError(type(x))


def _mag(c, exp):
    return Fraction(c << exp) if exp >= 0 else Fraction(c, 1 << -exp)


def sval(d):
    return -d[2] if d[1] else d[2]


def fin(v, neg=None):
    return ('fin', (v < 0) if neg is None else neg, abs(v))


NAN = ('nan',)


def d_add(a, b):
    if a[0] == 'nan' or b[0] == 'nan':
        return NAN
    if a[0] == 'inf':
        if b[0] == 'inf' and a[1] != b[1]:
            return NAN
        return a
    if b[0] == 'inf':
        return b
    if a[2] == 0 and b[2] == 0:
        return ('fin', a[1] and b[1], Fraction(0))
    v = sval(a) + sval(b)
    if v == 0:
        return ('fin', False, Fraction(0))       # exact cancellation: +0 (IEEE 6.3, non-RTN)
    return fin(v)


def d_neg(a):
    if a[0] == 'nan':
        return NAN
    if a[0] == 'inf':
        return ('inf', not a[1])
    return ('fin', not a[1], a[2])


def d_abs(a):
    if a[0] == 'nan':
        return NAN
    if a[0] == 'inf':
        return ('inf', False)
    return ('fin', False, a[2])


def d_mul(a, b):
    if a[0] == 'nan' or b[0] == 'nan':
        return NAN
    if a[0] == 'inf' or b[0] == 'inf':
        other = b if a[0] == 'inf' else a
        if other[0] == 'fin' and other[2] == 0:
            return NAN
        return ('inf', a[1] != b[1])
    return ('fin', a[1] != b[1], a[2] * b[2])


def d_pow(a, n):
    if n == 0:
        return ('fin', False, Fraction(1))
    if a[0] == 'nan':
        return NAN
    s = a[1] and (n % 2 == 1)
    if a[0] == 'inf':
        return ('inf', s)
    return ('fin', s, a[2] ** n)


def d_cmp(a, b):
    """-1/0/1 or None (unordered)"""
    if a[0] == 'nan' or b[0] == 'nan':
        return None

    def key(d):
        if d[0] == 'inf':
            return (-1, 0) if d[1] else (1, 0)
        return (0, sval(d))
    ka, kb = key(a), key(b)
    return (ka > kb) - (ka < kb)


def same(a, b):
    if a[0] != b[0]:
        return False
    if a[0] == 'nan':
        return True
    if a[0] == 'inf':
        return a[1] == b[1]
    return a[1] == b[1] and a[2] == b[2]


def is_dyadic(v: Fraction):
    return v.denominator & (v.denominator - 1) == 0


def dstr(d):
    if d is None:
        return 'None'
    if d[0] == 'nan':
        return 'nan'
    if d[0] == 'inf':
        return '-inf' if d[1] else '+inf'
    return ('-' if d[1] else '+') + str(d[2])


# -- the monitor ---------------------------------------------------------------

class NumMon:
    def __init__(self, res: Result):
        self.res = res
        self.n = 0
        self.distinct = 0

    def bad(self, op, lhs, rhs, got, want, detail=''):
        self.res.violate({
            'property': PROP, 'op': op, 'lhs': repr(lhs), 'rhs': repr(rhs),
            'got': got if isinstance(got, str) else repr(got), 'expected': want, 'detail': detail,
            'mechanism': {'op': op, 'lhs_type': type(lhs).__name__, 'rhs_type': type(rhs).__name__ if rhs is not None else None},
        })

    def binop(self, op, fn, dfn, a, b):
        """a op b must denote dfn(den a, den b); raising is fine only for a non-dyadic rational operand."""
        self.n += 1
        da, db = den(a), den(b)
        want = dfn(da, db)
        try:
            r = fn(a, b)
        except (ValueError, TypeError) as e:
            nd = any(isinstance(t, Fraction) and not is_dyadic(t) for t in (a, b))
            if not nd:
                self.bad(op, a, b, f'raised {type(e).__name__}: {e}', dstr(want))
            return
        except Exception as e:
            self.bad(op, a, b, f'raised {type(e).__name__}: {e}', dstr(want))
            return
        if r is NotImplemented:
            self.bad(op, a, b, 'NotImplemented', dstr(want))
            return
        try:
            got = den(r)
        except TypeError:
            self.bad(op, a, b, r, dstr(want), 'result is not a number')
            return
        if not same(got, want):
            # an int / Fraction zero carries no sign: the sign of a zero result that
            # depends on "the sign of that zero" is not determined by the denotations
            unsigned_zero = any(isinstance(t, (int, Fraction)) and t == 0 for t in (a, b))
            if unsigned_zero and want[0] == 'fin' and want[2] == 0 and got[0] == 'fin' and got[2] == 0:
                self.res.count('zero_sign_open')
                return
            self.bad(op, a, b, dstr(got), dstr(want))

    def unop(self, op, fn, dfn, a):
        self.n += 1
        want = dfn(den(a))
        try:
            r = fn(a)
            got = den(r)
        except Exception as e:
            self.bad(op, a, None, f'raised {type(e).__name__}: {e}', dstr(want))
            return
        if not same(got, want):
            self.bad(op, a, None, dstr(got), dstr(want))

    def compare(self, a, b):
        """all six comparisons + compare()"""
        from fpy2.utils import Ordering
        da, db = den(a), den(b)
        c = d_cmp(da, db)
        table = {
            '==': (lambda x, y: x == y, c == 0),
            '!=': (lambda x, y: x != y, c != 0),
            '<': (lambda x, y: x < y, c is not None and c < 0),
            '<=': (lambda x, y: x <= y, c is not None and c <= 0),
            '>': (lambda x, y: x > y, c is not None and c > 0),
            '>=': (lambda x, y: x >= y, c is not None and c >= 0),
        }
        for name, (fn, want) in table.items():
            self.n += 1
            try:
                got = fn(a, b)
            except Exception as e:
                self.bad(name, a, b, f'raised {type(e).__name__}: {e}', str(want))
                continue
            if bool(got) != want or not isinstance(got, bool):
                self.bad(name, a, b, repr(got), str(want))
        from fpy2.number import Float as _F, RealFloat as _R
        # RealFloat.compare is declared for RealFloat | int | float | Fraction only
        if hasattr(a, 'compare') and not (isinstance(a, _R) and isinstance(b, _F)):
            self.n += 1
            try:
                o = a.compare(b)
            except Exception as e:
                self.bad('compare', a, b, f'raised {type(e).__name__}: {e}', str(c))
                return
            want = {None: None, -1: Ordering.LESS, 0: Ordering.EQUAL, 1: Ordering.GREATER}[c]
            if o is not want and o != want:
                self.bad('compare', a, b, repr(o), repr(want))

    def compare_native_left(self, b, a):
        """native (int/float/Fraction) on the left: Python reflects to a's methods."""
        da, db = den(a), den(b)
        c = d_cmp(db, da)
        table = {
            '==': (lambda x, y: x == y, c == 0),
            '<': (lambda x, y: x < y, c is not None and c < 0),
            '>=': (lambda x, y: x >= y, c is not None and c >= 0),
        }
        for name, (fn, want) in table.items():
            self.n += 1
            try:
                got = fn(b, a)
            except Exception as e:
                self.bad('native' + name, b, a, f'raised {type(e).__name__}: {e}', str(want))
                continue
            if bool(got) != want:
                self.bad('native' + name, b, a, repr(got), str(want))

    def hash_eq(self, a):
        """equal values hash equally: compare with Python's numeric hash of the denotation."""
        d = den(a)
        if d[0] == 'nan':
            return
        self.n += 1
        want = hash(float('-inf') if d[1] else float('inf')) if d[0] == 'inf' else hash(sval(d))
        try:
            got = hash(a)
        except Exception as e:
            self.bad('hash', a, None, f'raised {type(e).__name__}: {e}', str(want))
            return
        if got != want:
            self.bad('hash', a, None, str(got), str(want))

    def conversions(self, a):
        d = den(a)
        # int()
        self.n += 1
        try:
            r = int(a)
            if d[0] != 'fin' or sval(d).denominator != 1 or r != sval(d) or type(r) is not int:
                self.bad('int', a, None, repr(r), 'raise' if d[0] != 'fin' or sval(d).denominator != 1 else str(sval(d)))
        except (ValueError, OverflowError):
            if d[0] == 'fin' and sval(d).denominator == 1:
                self.bad('int', a, None, 'raised', str(sval(d)))
        except Exception as e:
            self.bad('int', a, None, f'raised {type(e).__name__}: {e}', '')
        # float()
        self.n += 1
        exact = None
        if d[0] == 'fin':
            try:
                f = float(sval(d))
                if Fraction(f) == sval(d):
                    exact = math.copysign(f, -1.0 if d[1] else 1.0) if f == 0 else f
            except OverflowError:
                pass
        try:
            r = float(a)
            if d[0] == 'nan':
                ok = r != r
            elif d[0] == 'inf':
                ok = math.isinf(r) and (r < 0) == d[1]
            else:
                ok = exact is not None and r == exact and math.copysign(1.0, r) == math.copysign(1.0, exact)
            if not ok:
                self.bad('float', a, None, repr(r), repr(exact) if d[0] == 'fin' else dstr(d))
        except (ValueError, OverflowError):
            if d[0] == 'fin' and exact is not None:
                self.bad('float', a, None, 'raised', repr(exact))
        except Exception as e:
            self.bad('float', a, None, f'raised {type(e).__name__}: {e}', '')
        # as_rational
        if d[0] == 'fin':
            self.n += 1
            try:
                r = a.as_rational()
                if r != sval(d) or not isinstance(r, Fraction):
                    self.bad('as_rational', a, None, repr(r), str(sval(d)))
            except Exception as e:
                self.bad('as_rational', a, None, f'raised {type(e).__name__}: {e}', str(sval(d)))

    def structure(self, a, ns, ps):
        """split / normalize / is_more_significant / bit, for finite a."""
        d = den(a)
        if d[0] != 'fin':
            return
        v = sval(d)
        mag = d[2]
        if mag != 0:
            num = mag.numerator
            lsb = (num & -num).bit_length() - 1 - (mag.denominator.bit_length() - 1)
            sb = (num >> ((num & -num).bit_length() - 1)).bit_length()
        else:
            lsb, sb = None, 0
        for n in ns:
            # split
            self.n += 1
            try:
                hi, lo = a.split(n)
                dh, dl = den(hi), den(lo)
                ok = dh[0] == 'fin' and dl[0] == 'fin' and sval(dh) + sval(dl) == v
                u = Fraction(2) ** (n + 1)
                ok = ok and (sval(dh) / u).denominator == 1 and dl[2] < u
                ok = ok and dh[1] == d[1] and dl[1] == d[1]
                if not ok:
                    self.bad('split', a, n, f'({dstr(dh)}, {dstr(dl)})', f'parts of {dstr(d)} at n={n}')
            except Exception as e:
                self.bad('split', a, n, f'raised {type(e).__name__}: {e}', '')
            # is_more_significant
            self.n += 1
            try:
                r = a.is_more_significant(n)
                want = mag == 0 or lsb > n
                if r != want:
                    self.bad('is_more_significant', a, n, repr(r), repr(want))
            except Exception as e:
                self.bad('is_more_significant', a, n, f'raised {type(e).__name__}: {e}', '')
            # bit
            if hasattr(a, 'bit'):
                self.n += 1
                try:
                    r = a.bit(n)
                    want = ((mag / (Fraction(2) ** n)).__floor__() & 1) == 1
                    if r != want:
                        self.bad('bit', a, n, repr(r), repr(want))
                except Exception as e:
                    self.bad('bit', a, n, f'raised {type(e).__name__}: {e}', '')
        for p in ps:
            for n in [None] + list(ns):
                if p is None and n is None:
                    continue
                self.n += 1
                possible = True
                if mag != 0:
                    if p is not None and sb > p:
                        possible = False
                    if n is not None and lsb < n + 1:
                        possible = False
                try:
                    r = a.normalize(p, n)
                except ValueError:
                    if possible:
                        self.bad('normalize', a, (p, n), 'raised ValueError', 'a value')
                    continue
                except Exception as e:
                    self.bad('normalize', a, (p, n), f'raised {type(e).__name__}: {e}', '')
                    continue
                dr = den(r)
                if not same(dr, d):
                    self.bad('normalize', a, (p, n), dstr(dr), dstr(d), 'value changed')
                    continue
                if mag != 0:
                    if p is not None and n is None and r.p != p:
                        self.bad('normalize', a, (p, n), f'p={r.p}', f'p={p}')
                    if p is None and n is not None and r.exp != n + 1:
                        self.bad('normalize', a, (p, n), f'exp={r.exp}', f'exp={n+1}')
                    if p is not None and n is not None and (r.exp < n + 1 or r.p > p):
                        self.bad('normalize', a, (p, n), f'exp={r.exp},p={r.p}', f'exp>={n+1},p<={p}')


def encodings(cmax: int, emin: int, emax: int):
    from fpy2.number import Float, RealFloat
    reals, floats = [], []
    for s in (False, True):
        for c in range(0, cmax + 1):
            for exp in range(emin, emax + 1):
                reals.append(RealFloat(s=s, c=c, exp=exp))
                floats.append(Float(s=s, c=c, exp=exp))
    floats += [Float(isinf=True), Float(s=True, isinf=True), Float(isnan=True), Float(s=True, isnan=True),
               Float(s=True, isinf=True, c=5, exp=3)]
    return reals, floats


def natives():
    ints = list(range(-9, 10)) + [20, -20, 1 << 70, -(1 << 70)]
    floats = [0.0, -0.0, 0.5, -0.5, 1.0, -1.0, 1.5, 3.0, -3.75, 0.1, 1e300, -1e300, 5e-324, -5e-324,
              2.0 ** 1000, 2.0 ** -1000, math.inf, -math.inf, math.nan, 7.0, 0.25, 12.0]
    fracs = [Fraction(0), Fraction(1, 2), Fraction(-3, 4), Fraction(5), Fraction(-7, 8), Fraction(15, 16),
             Fraction(1, 3), Fraction(-2, 5), Fraction(1, 10), Fraction(3, 2), Fraction(-12), Fraction(1, 1 << 80)]
    return ints, floats, fracs


def shard(i: int, n: int, tier: str, seed: int) -> Result:
    import operator
    from fpy2.number import Float, RealFloat
    res = Result(PROP, tier, seed)
    mon = NumMon(res)
    quick = tier == 'quick'
    reals, floats = encodings(15 if quick else 31, -4 if quick else -5, 4 if quick else 5)
    ints, pyfloats, fracs = natives()
    rng = random.Random(seed * 7919 + i)
    # wide random values
    wide = []
    for _ in range(20 if quick else 80):
        c = rng.getrandbits(rng.choice([60, 130, 300]))
        e = rng.choice([-2000, -70, -1, 0, 33, 1500])
        wide.append(RealFloat(s=rng.random() < 0.5, c=c, exp=e))
        wide.append(Float(s=rng.random() < 0.5, c=c, exp=e))

    # the edges of the native float: subnormal range (bits below 2^-1074 must raise, not be rounded away), the
    # largest finite double and the first values past it, 53/54-bit significands, redundant encodings of the same value
    edge = []
    for c in (1, 2, 3, 5, 6, 7, 9, (1 << 52) + 1, (1 << 53) - 1, (1 << 53) + 1, (1 << 54) - 1, 1 << 60):
        for e in (-1130, -1080, -1077, -1076, -1075, -1074, -1073, -1070, -1023, -1022, 960, 969, 970, 971, 972, 1015, 1020, 1022, 1023, 1024, 1030):
            for sgn in (False, True):
                edge.append(RealFloat(s=sgn, c=c, exp=e))
                edge.append(Float(s=sgn, c=c, exp=e))
    ops = [('+', operator.add, d_add), ('-', operator.sub, lambda a, b: d_add(a, d_neg(b))), ('*', operator.mul, d_mul)]
    distinct = 0
    for k, a in enumerate(edge):
        if k % n != i:
            continue
        mon.conversions(a)
        mon.hash_eq(a)
        mon.unop('neg', operator.neg, d_neg, a)
        distinct += 1
    # unary + conversions + structure: split the value list over shards
    allvals = reals + floats + wide
    for k, a in enumerate(allvals):
        if k % n != i:
            continue
        mon.unop('neg', operator.neg, d_neg, a)
        mon.unop('pos', operator.pos, lambda d: d, a)
        mon.unop('abs', operator.abs, d_abs, a)
        for e in (0, 1, 2, 3, 5):
            mon.binop('**', lambda x, y: x ** y, lambda da, db, e=e: d_pow(da, e), a, e)
        mon.hash_eq(a)
        mon.conversions(a)
        mon.structure(a, range(-6, 7) if not quick else range(-4, 5), [None, 0, 1, 2, 3, 4, 6])
        distinct += 1
    # binary ops: left operands split over shards, right operands everything
    rights = reals + floats + ints + pyfloats + fracs + wide[:10]
    lefts = (reals + floats + wide[:10])
    for k, a in enumerate(lefts):
        if k % n != i:
            continue
        for b in rights:
            for name, fn, dfn in ops:
                mon.binop(name, fn, dfn, a, b)
            mon.compare(a, b)
            distinct += 1
            # reflected operators with a native on the left
            if not isinstance(b, (RealFloat, Float)):
                for name, fn, dfn in ops:
                    mon.binop('r' + name, lambda x, y, fn=fn: fn(y, x), lambda da, db, dfn=dfn: dfn(db, da), a, b)
                mon.compare_native_left(b, a)
    # constructors
    if i == 0:
        for x in ints:
            mon.n += 1
            if den(RealFloat.from_int(x)) != den(x) or den(Float.from_int(x)) != den(x):
                mon.bad('from_int', x, None, '', dstr(den(x)))
        for x in pyfloats:
            mon.n += 1
            try:
                f = Float.from_float(x)
                if not same(den(f), den(x)):
                    mon.bad('from_float', x, None, dstr(den(f)), dstr(den(x)))
            except Exception as e:
                mon.bad('from_float', x, None, f'raised {e}', dstr(den(x)))
            if math.isfinite(x):
                r = RealFloat.from_float(x)
                if not same(den(r), den(x)):
                    mon.bad('from_float', x, None, dstr(den(r)), dstr(den(x)))
        for x in fracs:
            mon.n += 1
            try:
                r = RealFloat.from_rational(x)
                if not is_dyadic(x) or sval(den(r)) != x:
                    mon.bad('from_rational', x, None, dstr(den(r)), str(x))
            except ValueError:
                if is_dyadic(x):
                    mon.bad('from_rational', x, None, 'raised', str(x))
    res.evaluations = mon.n
    res.nontrivial = distinct
    res.counters['lefts'] = len(lefts)
    res.counters['rights'] = len(rights)
    if i == 0:
        res.sample({'left': repr(lefts[5]), 'right': repr(rights[40]), 'ops': ['+', '-', '*', '==', '<', '<=', '>', '>=', 'compare']})
        res.sample({'encodings': len(reals) + len(floats), 'natives': len(ints) + len(pyfloats) + len(fracs)})
    return res


def main(tier: str) -> int:
    s = get_seed()
    res = Result(PROP, tier, s, rule=RULE)
    res.assumptions = ['denotation computed from (s, c, exp, isinf, isnan) with Fraction arithmetic; IEEE 754 rules for specials and signed zeros',
                       'arithmetic with a non-dyadic Fraction operand may raise (no exact Float exists)']
    run_shards('vf.checks.c05', 16, tier, s, timeout=900 if tier == 'quick' else 3000, res=res)
    res.exhaustive = True
    res.extra['exhaustive_scope'] = 'all ordered pairs of encodings s x c<=15 x exp in -4..4 (quick) / c<=31 x exp in -5..5 (thorough), plus inf/NaN, plus natives'
    return finish(res)


if __name__ == '__main__':
    shard_main(shard)
