"""
C06 -- a numeric literal denotes exactly the number written.

Modules of one-line functions `return <literal>` / `return round(<literal>)`
are generated as real source files, decorated by the real `@fp.fpy`, and
called under REAL and under narrow contexts.  The oracle is an independent
spelling -> Fraction parser (no float(), no fpy2 helpers).
"""
from __future__ import annotations

import importlib.util
import os
import random
import shutil
import sys
import tempfile
from fractions import Fraction

from ..common import Result, finish, run_shards, seed as get_seed, shard_main

PROP = 'C06'
RULE = ('one evaluation = one literal spelling compiled by @fp.fpy and evaluated (under REAL: exact value; through round() under '
        'a narrow context: exact value rounded once); non-trivial = distinct spellings whose value differs from what Python\'s '
        'float() of the spelling denotes, or that is not an int/float literal at all (hex, rational, digits)')


# ---------------------------------------------------------------------------
# independent spelling parser
# ---------------------------------------------------------------------------

def parse_decimal(text: str) -> Fraction:
    """Python decimal literal (digits, '_', '.', e/E exponent) -> exact Fraction."""
    t = text.replace('_', '').lower()
    mant, _, exp = t.partition('e')
    ip, _, fp_ = mant.partition('.')
    digits = (ip or '0') + fp_
    v = Fraction(int(digits), 10 ** len(fp_))
    if exp:
        e = int(exp)
        v = v * (Fraction(10) ** e)
    return v


def parse_hex(text: str) -> Fraction:
    """[-+]0xh.hp[+-]d -> Fraction"""
    t = text.strip()
    neg = t.startswith('-')
    if t[0] in '+-':
        t = t[1:]
    assert t.startswith('0x')
    t = t[2:]
    mant, _, exp = t.partition('p')
    ip, _, fp_ = mant.partition('.')
    digits = (ip or '0') + fp_
    v = Fraction(int(digits, 16), 16 ** len(fp_))
    if exp:
        v = v * (Fraction(2) ** int(exp))
    return -v if neg else v


# ---------------------------------------------------------------------------
# spelling generator: (source expression text, exact Fraction, negative zero?, kind)
# ---------------------------------------------------------------------------

def gen_literal(rng: random.Random):
    kind = rng.choice(['int', 'int', 'dec', 'dec', 'dec', 'dec', 'sci', 'sci', 'sci', 'hex', 'hex', 'rational', 'digits', 'negzero', 'halfway', 'bigint_e'])
    neg = rng.random() < 0.3

    def digits(n, first_nonzero=True):
        s = ''.join(rng.choice('0123456789') for _ in range(n))
        if first_nonzero and s[0] == '0':
            s = rng.choice('123456789') + s[1:]
        return s

    def us(s):
        # sprinkle underscores between digits
        if len(s) > 3 and rng.random() < 0.15:
            i = rng.randrange(1, len(s) - 1)
            return s[:i] + '_' + s[i:]
        return s

    if kind == 'int':
        s = digits(rng.choice([1, 2, 5, 16, 17, 18, 25, 40]))
        text = us(s)
        val = Fraction(int(s))
    elif kind == 'dec':
        ip = digits(rng.choice([1, 1, 2, 8, 20]), first_nonzero=False)
        ip = str(int(ip)) if rng.random() < 0.7 else ip.lstrip('0') or '0'
        fp_ = digits(rng.choice([1, 2, 5, 16, 17, 18, 30, 40]), first_nonzero=False)
        if rng.random() < 0.2:
            fp_ += '0' * rng.randrange(1, 5)
        form = rng.random()
        if form < 0.1:
            text = '.' + fp_
            ip = '0'
        elif form < 0.15:
            text = ip + '.'
            fp_ = ''
        else:
            text = us(ip) + '.' + us(fp_)
        val = parse_decimal(ip + '.' + fp_ if fp_ else ip)
    elif kind == 'sci':
        ip = str(int(digits(rng.choice([1, 1, 2, 6]), first_nonzero=False)))
        fp_ = digits(rng.choice([0, 1, 3, 17, 25]) or 1, first_nonzero=False) if rng.random() < 0.8 else ''
        e = rng.choice([rng.randint(-30, 30), rng.randint(-400, 400), rng.choice([22, 23, 24, 300, 308, 309, 400, -323, -324, -325, -400])])
        estr = rng.choice(['e', 'E']) + rng.choice(['', '+', '-'] if e >= 0 else ['-'])
        if estr.endswith('-') and e > 0:
            e = -e
        text = ip + ('.' + fp_ if fp_ else ('.' if rng.random() < 0.1 else '')) + estr + str(abs(e))
        val = parse_decimal(ip + '.' + (fp_ or '0') + 'e' + str(e))
    elif kind == 'bigint_e':
        # integers above 2^53 written with an exponent
        m = digits(rng.choice([1, 2, 3]))
        e = rng.choice([16, 17, 20, 22, 23, 25, 30, 40, 100])
        text = f'{m}e{e}' if rng.random() < 0.5 else f'{m}.0e{e}'
        val = Fraction(int(m)) * Fraction(10) ** e
    elif kind == 'halfway':
        # spelling exactly between two doubles: (2^53 + 1) * 2^k written out, or a 1 + 2^-53 decimal expansion
        k = rng.choice([0, 1, 3, 10])
        n = ((1 << 53) + 1) << k
        if rng.random() < 0.5:
            text = f'{n}.0'
            val = Fraction(n)
        else:
            val = Fraction(1) + Fraction(1, 1 << 53) + (Fraction(1, 1 << 60) if rng.random() < 0.5 else 0)
            # exact decimal expansion of a dyadic
            d = val.denominator.bit_length() - 1
            num = val.numerator * 5 ** d
            s = str(num).rjust(d + 1, '0')
            text = s[:-d] + '.' + s[-d:]
    elif kind == 'hex':
        ip = ''.join(rng.choice('0123456789abcdef') for _ in range(rng.choice([1, 1, 2, 8, 16])))
        fp_ = ''.join(rng.choice('0123456789abcdef') for _ in range(rng.choice([0, 1, 13, 14, 20, 30])))
        p = rng.choice([rng.randint(-20, 20), rng.randint(-1100, 1100), None])
        body = '0x' + ip + ('.' + fp_ if fp_ else '') + (f'p{p:+d}' if p is not None and rng.random() < 0.5 else (f'p{p}' if p is not None else ''))
        sign = rng.choice(['', '', '-', '+'])
        s = sign + body
        text = f"hexfloat('{s}')"
        val = parse_hex(s)
        return text, val, (val == 0 and sign == '-'), 'hex'
    elif kind == 'rational':
        p = rng.choice([rng.randint(-50, 50), rng.getrandbits(70) - (1 << 69)])
        q = rng.choice([rng.randint(1, 50), rng.getrandbits(60) | 1, 3, 7, 10, 1 << 20])
        if rng.random() < 0.2:
            q = -q
        text = f'rational({p}, {q})'
        val = Fraction(p, q)
        return text, val, False, 'rational'
    elif kind == 'digits':
        m = rng.choice([rng.randint(-999, 999), rng.getrandbits(64) - (1 << 63)])
        e = rng.randint(-30, 30)
        b = rng.choice([2, 3, 10, 16, 7])
        text = f'digits({m}, {e}, {b})'
        val = Fraction(m) * Fraction(b) ** e
        return text, val, False, 'digits'
    else:  # negzero
        z = rng.choice(['0', '0.0', '0e5', '0.000', '.0', '0E-3', '00.0' if False else '0.0e0'])
        text = '-' + z
        return text, Fraction(0), True, 'negzero'
    if neg:
        return '-' + text, -val, (val == 0), kind
    return text, val, False, kind


NARROW = ['MPFloatContext(3, RM.RNE)', 'MPFloatContext(5, RM.RTP)', 'IEEEContext(5, 16, RM.RNE)', 'IEEEContext(8, 32, RM.RTZ)',
          'IEEEContext(11, 64, RM.RNE)', 'IEEEContext(11, 64, RM.RTN)', 'MPFixedContext(-3, RM.RNA)', 'MPFloatContext(60, RM.RNE)']


def shard(i: int, n: int, tier: str, seed: int) -> Result:
    import fpy2 as fp
    from fpy2.number import Float
    from ..gen import ctxs
    from ..oracle import rnd
    from ..oracle.describe import describe, to_val, val_str
    from ..monitors.roundmon import same_val

    res = Result(PROP, tier, seed)
    rng = random.Random(seed * 104729 + i)
    total = (6000 if tier == 'quick' else 200000) // n
    per_mod = 150
    work = tempfile.mkdtemp(prefix='vf-c06-')
    sys.path.insert(0, work)
    narrow = [(t, ctxs.build(t)) for t in NARROW]
    fds = [describe(c) for _, c in narrow]
    seen = set()
    try:
        done = 0
        modno = 0
        while done < total:
            lits = []
            while len(lits) < per_mod:
                text, val, nz, kind = gen_literal(rng)
                if text in seen:
                    continue
                seen.add(text)
                lits.append((text, val, nz, kind))
            modno += 1
            name = f'vf_c06_{os.getpid()}_{modno}'
            src = ['import fpy2 as fp', 'from fpy2 import *', '']
            for k, (text, val, nz, kind) in enumerate(lits):
                src += ['@fp.fpy', f'def lit_{k}():', f'    return {text}', '', '@fp.fpy', f'def rnd_{k}():', f'    return round({text})', '']
            path = os.path.join(work, name + '.py')
            # decorate function by function so one rejected spelling does not lose the module
            mod_ns = _load(name, path, '\n'.join(src), res)
            if mod_ns is None:
                # fall back to one module per literal to find the offender(s)
                for k, (text, val, nz, kind) in enumerate(lits):
                    one = f'{name}_{k}'
                    s1 = '\n'.join(['import fpy2 as fp', 'from fpy2 import *', '', '@fp.fpy', f'def lit_0():', f'    return {text}', '',
                                    '@fp.fpy', f'def rnd_0():', f'    return round({text})', ''])
                    ns = _load(one, os.path.join(work, one + '.py'), s1, res, report=(text, val, kind))
                    if ns is not None:
                        _judge(res, ns, 0, text, val, nz, kind, narrow, fds, rng)
                    done += 1
                continue
            for k, (text, val, nz, kind) in enumerate(lits):
                _judge(res, mod_ns, k, text, val, nz, kind, narrow, fds, rng)
                done += 1
    finally:
        sys.path.remove(work)
        shutil.rmtree(work, ignore_errors=True)
    return res


def _load(name, path, source, res, report=None):
    with open(path, 'w') as f:
        f.write(source)
    spec = importlib.util.spec_from_file_location(name, path)
    mod = importlib.util.module_from_spec(spec)
    sys.modules[name] = mod
    try:
        spec.loader.exec_module(mod)
    except Exception as e:
        sys.modules.pop(name, None)
        if report is not None:
            text, val, kind = report
            pyfloat_ok = True
            res.evaluations += 1
            res.violate({'property': PROP, 'literal': text, 'exact': str(val), 'problem': f'@fp.fpy rejected the literal: {type(e).__name__}: {str(e)[:200]}',
                         'mechanism': {'kind': kind, 'problem': 'rejected', 'beyond_double': _beyond_double(val),
                                       'source': 'python_float_literal' if kind in FLOAT_KINDS and not _is_int_literal(text) else kind,
                                       'python_float_differs': _py_float_differs(text, val, kind) and kind in FLOAT_KINDS,
                                       'got_is_python_float_value': _beyond_double(val)}})
        return None
    return mod


FLOAT_KINDS = ('dec', 'sci', 'bigint_e', 'halfway', 'int')


def _is_int_literal(text: str) -> bool:
    t = text.lstrip('+-').replace('_', '')
    return t.isdigit()


def _beyond_double(val: Fraction) -> bool:
    try:
        float(val)
        return abs(val) > Fraction(2) ** 1024
    except OverflowError:
        return True


def _py_float_differs(text: str, val: Fraction, kind: str) -> bool:
    """does Python's own parse of the spelling denote a different number?"""
    if kind in ('hex', 'rational', 'digits', 'negzero'):
        return True
    try:
        v = eval(text, {})
    except Exception:
        return True
    if isinstance(v, int):
        return False
    try:
        return Fraction(v) != val
    except (OverflowError, ValueError):
        return True


def _judge(res, mod, k, text, val, nz, kind, narrow, fds, rng):
    import fpy2 as fp
    from fpy2.number import Float
    from ..oracle import rnd
    from ..oracle.describe import to_val, val_str
    from ..monitors.roundmon import same_val
    res.evaluations += 1
    differs = _py_float_differs(text, val, kind)
    if differs:
        res.nontrivial += 1
    res.count(f'kind:{kind}')
    mech = {'kind': kind, 'python_float_differs': differs and kind in FLOAT_KINDS, 'beyond_double': _beyond_double(val),
            'source': 'python_float_literal' if kind in FLOAT_KINDS and not _is_int_literal(text) else kind}
    want = ('fin', bool(nz) if val == 0 else val < 0, abs(val))
    # F4 is "the literal arrives as the value Python's float() gives the spelling": a wrong value is only that finding when it IS that value
    # (or that value rounded by the context in use); any other wrong value is a different defect
    try:
        pf = float(text.replace('_', '')) if kind in FLOAT_KINDS else None
        # the front end re-reads the float through its shortest repr (Decnum(str(value))): that decimal is "the value Python's float gives"
        pyv = None if pf is None or pf != pf or pf in (float('inf'), float('-inf')) else ('fin', (pf < 0) or (pf == 0 and (bool(nz) or str(pf).startswith('-'))), abs(Fraction(repr(pf))))
    except Exception:
        pyv = None
    mech['got_is_python_float_value'] = _beyond_double(val)

    def py_consistent(gv, fd=None):
        if gv is None or pyv is None:
            return _beyond_double(val)
        # ... or the float's exact binary value (integral floats are converted with int())
        for cand in (pyv, ('fin', pyv[1], abs(Fraction(pf)))):
            if same_val(gv, cand):
                return True
            if fd is not None:
                try:
                    if any(same_val(gv, v) for v in rnd.expected_round(fd, cand).values):
                        return True
                except Exception:
                    pass
        return False

    def got_val(r):
        if isinstance(r, Fraction):
            return ('fin', r < 0, abs(r))
        if isinstance(r, Float):
            return to_val(r)
        if isinstance(r, int) and not isinstance(r, bool):
            return ('fin', r < 0, Fraction(abs(r)))
        return None

    # 1. under REAL: exactly the number written
    f = getattr(mod, f'lit_{k}')
    try:
        r = f(ctx=fp.REAL)
        gv = got_val(r)
        if gv is None or not same_val(gv, want):
            if gv is not None and val == 0 and gv[0] == 'fin' and gv[2] == 0 and isinstance(r, Fraction):
                pass
            else:
                res.violate({'property': PROP, 'literal': text, 'exact': val_str(want), 'got': val_str(gv) if gv else repr(r),
                             'problem': 'value under REAL differs from the spelling',
                             'mechanism': dict(mech, problem='value_real', got_is_python_float_value=py_consistent(gv))})
                return
    except Exception as e:
        res.violate({'property': PROP, 'literal': text, 'exact': val_str(want), 'problem': f'evaluation under REAL raised {type(e).__name__}: {str(e)[:200]}',
                     'mechanism': dict(mech, problem='raise_real')})
        return
    # 2. through a rounding operation under a narrow context: the exact value rounded once
    g = getattr(mod, f'rnd_{k}')
    for j in rng.sample(range(len(narrow)), 3):
        ctext, ctx = narrow[j]
        exp = rnd.expected_round(fds[j], want)
        res.count('rounded_checks')
        try:
            r = g(ctx=ctx)
        except Exception as e:
            if exp.raises and type(e).__name__ in exp.raises:
                continue
            res.violate({'property': PROP, 'literal': text, 'context': ctext, 'problem': f'round(literal) raised {type(e).__name__}: {str(e)[:200]}',
                         'mechanism': dict(mech, problem='raise_round')})
            return
        gv = got_val(r)
        if gv is None or not any(same_val(gv, v) for v in exp.values):
            res.violate({'property': PROP, 'literal': text, 'context': ctext, 'exact': val_str(want), 'got': val_str(gv) if gv else repr(r),
                         'expected': [val_str(v) for v in exp.values], 'problem': 'round(literal) is not the exact value rounded once',
                         'mechanism': dict(mech, problem='value_round', got_is_python_float_value=py_consistent(gv, fds[j]))})
            return
        # 3. the bare literal under a narrow context: the exact value, or it rounded once (documented: literals are as-is)
        try:
            r2 = f(ctx=ctx)
            g2 = got_val(r2)
            if g2 is None or not (same_val(g2, want) or any(same_val(g2, v) for v in exp.values)):
                res.violate({'property': PROP, 'literal': text, 'context': ctext, 'exact': val_str(want), 'got': val_str(g2) if g2 else repr(r2),
                             'problem': 'bare literal under a context is neither the exact value nor it rounded once',
                             'mechanism': dict(mech, problem='value_ctx', got_is_python_float_value=py_consistent(g2, fds[j]))})
                return
        except Exception as e:
            res.violate({'property': PROP, 'literal': text, 'context': ctext, 'problem': f'literal under context raised {type(e).__name__}: {str(e)[:200]}',
                         'mechanism': dict(mech, problem='raise_ctx')})
            return
    if res.evaluations % 97 == 0:
        res.sample({'literal': text, 'exact': str(val) if len(str(val)) < 80 else str(val)[:80] + '...', 'kind': kind})


def main(tier: str) -> int:
    s = get_seed()
    res = Result(PROP, tier, s, rule=RULE)
    res.assumptions = ['spelling parser in vf/checks/c06.py (Fraction arithmetic on the digit strings)',
                       'documented semantics: a bare literal is not rounded; rounding is observed through round(<literal>)']
    run_shards('vf.checks.c06', 16, tier, s, timeout=900 if tier == 'quick' else 3000, res=res)
    return finish(res)


if __name__ == '__main__':
    shard_main(shard)
