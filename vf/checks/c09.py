"""
C09 -- inlining, specialisation and hoisting preserve results.

Differential monitor over inline (one site / all sites / recursive or one
level / restricted to some callees), monomorphize (pinned caller context and
argument types), close and lift_context, on generated caller/callee programs:
callees with and without their own context, called inside nested `with`
blocks, in loops and comprehensions, as arguments of other calls, with list
arguments they mutate, with local names clashing with the caller's, chains of
depth 3.
"""
from __future__ import annotations

import random

from ..common import Result, finish, run_shards, seed as get_seed, shard_main

PROP = 'C09'
RULE = ('one evaluation = one (program, strategy configuration, input) comparison of the original (evaluated in the corresponding '
        'way) vs the transformed program; non-trivial = comparisons where the transformed text differs from the original')


def transforms(case, rng):
    import fpy2 as fp
    from fpy2.strategies import inline, monomorphize, close, lift_context, sites
    from fpy2.types import RealType
    f = case.f
    out = []
    try:
        nsites = len(sites(inline, f))
    except Exception:
        nsites = 0
    if nsites:
        out.append(('inline[all,recursive]', lambda: inline(f)))
        out.append(('inline[all,one-level]', lambda: inline(f, recursive=False)))
        for _ in range(3):
            w = rng.randrange(nsites)
            rec = rng.random() < 0.5
            out.append((f'inline[where={w},recursive={rec}]', lambda w=w, rec=rec: inline(f, w, recursive=rec)))
        helpers = [getattr(case.mod, h) for h in case.program.helper_names if hasattr(case.mod, h)]
        if helpers:
            h = rng.choice(helpers)
            out.append((f'inline[funcs={h.name}]', lambda h=h: inline(f, funcs=[h])))
        # twice: inline what one-level inlining left behind
        out.append(('inline[one-level twice]', lambda: inline(inline(f, recursive=False), recursive=False)))
    for ctx in rng.sample([fp.FP64, fp.FP32, fp.MPFloatContext(4), fp.IEEEContext(4, 8, fp.RM.RTP), fp.FixedContext(True, -6, 20, fp.RM.RNE, fp.OV.SATURATE)], 2):
        out.append((f'monomorphize[ctx={ctx!r}]'[:70], lambda ctx=ctx: monomorphize(f, ctx), {'orig_ctx': ctx}))
    types = [RealType(fp.FP64) if t in ('R', 'I') else None for t in case.program.arg_types]
    out.append(('monomorphize[ctx=FP64,args]', lambda: monomorphize(f, fp.FP64, types), {'orig_ctx': fp.FP64}))
    out.append(('close[]', lambda: close(f)))
    out.append(('lift_context[]', lambda: lift_context(f)))
    if nsites:
        out.append(('lift_context+inline', lambda: lift_context(inline(f))))
        out.append(('close+inline', lambda: inline(close(f))))
    return out


def shard(i: int, n: int, tier: str, seed: int) -> Result:
    from ..diff import run_differential
    from ..gen import prog
    import fpy2 as fp
    res = Result(PROP, tier, seed)
    rng = random.Random(seed * 4409 + i)
    total = 4000 if tier == "quick" else 40000
    prof = prog.profile(local_ctx_param_prob=0.2, contexts=prog.CONTEXTS + [('ctx', False), ('ctx', False), ('ctx1', False)], shadow_freevar_prob=0.25, closure_helpers_prob=0.3, helpers=3, w_call=5, w_with=4, w_for=3, w_if=2.5, w_freevar=2, w_index_assign=2, helper_ctx_prob=0.5,
                        mutate_helper_prob=0.45, mutating_call_in_expr_prob=0.5, helper_chain=True, reset_counter_per_function=True, computed_ctx_prob=0.25,
                        real_ops=('+', '-', '*', '/', 'neg', 'abs', 'sqrt', 'fma', 'min', 'max', 'round', 'floor', 'ifexpr', 'index', 'len', 'sum', 'call', 'call', 'call'),
                        args=lambda r: r.choice([('R', 'R', 'L'), ('R', 'L'), ('R', 'R'), ('R', 'L', 'L'), ('I', 'R', 'L')]))
    # arguments must be representable in the pinned argument types (python floats/ints are)
    run_differential(res, PROP, rng, total // n, prof, transforms, ninputs=8,
                     ctx_choices=(None, None, fp.FP32, fp.MPFloatContext(4), fp.REAL), tag='c09',
                     accept_exc=('RuntimeError', 'ValueError', 'CallGraphError'))
    return res


def main(tier: str) -> int:
    s = get_seed()
    res = Result(PROP, tier, s, rule=RULE)
    res.assumptions = ['oracle: the original program\'s own result (for monomorphize: the original called with ctx=<pinned context>, the result called without)',
                       'documented refusals: RuntimeError (multi-return callee, call in a while condition, clashing free variables), ValueError (type conflict), TransformDeclined / TransformReferenceError']
    run_shards('vf.checks.c09', 16 if tier == 'quick' else 64, tier, s, timeout=1200 if tier == 'quick' else 3400, res=res)
    v, c = res.counters.get('variants', 0), res.counters.get('variants_changed', 0)
    res.extra['changed_fraction'] = round(c / v, 3) if v else 0
    if v and c < 0.3 * v and not res.violations:
        res.inconclusive.append(f'only {c} of {v} transformed variants differed textually from the original')
    return finish(res)


if __name__ == '__main__':
    shard_main(shard)
