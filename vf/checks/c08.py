"""
C08 -- loop and iterator restructuring preserves results.

Differential monitor over unroll_for / unroll_while / split (constant and
variable factor, PEEL and STRICT) / elim_iter / fuse, on generated programs
whose loop bodies reassign outer variables, mutate the list they iterate,
return early, nest loops and use the strategies' default temporary names; list
lengths 0..9 are all driven.
"""
from __future__ import annotations

import random

from ..common import Result, finish, run_shards, seed as get_seed, shard_main

PROP = 'C08'
RULE = ('one evaluation = one (program, strategy configuration, input) comparison; non-trivial = comparisons where the '
        'transformed program text differs from the original; list lengths 0..10, 12, 13, 17 are all used as inputs')

HOSTILE = ['t', 'n', 'i', 'j', 'm', 'acc', 'b', '_src', '_i', 't2', 't3', 't4', 't5', 't6', 't7', 't8', 't9', 't10', 't11', 't12',
           'i3', 'i4', 'i5', 'i6', 'n2', 'n4', 'j2', 'j5', 'j7', 'm3', '_src5', '_i3']


def transforms(case, rng):
    from fpy2.strategies import unroll_for, unroll_while, split, elim_iter, fuse, sites
    from fpy2.transform import ForUnrollStrategy, SplitLoopStrategy
    f = case.f
    out = []
    try:
        nfor = len(sites(unroll_for, f))
    except Exception:
        nfor = 0
    try:
        nwhile = len(sites(unroll_while, f))
    except Exception:
        nwhile = 0
    wheres_for = [None] + list(range(nfor))
    for _ in range(3):
        if not nfor:
            break
        w = rng.choice(wheres_for)
        times = rng.choice([1, 2, 3, 4])
        strat = rng.choice([ForUnrollStrategy.PEEL, ForUnrollStrategy.PEEL, ForUnrollStrategy.STRICT])
        out.append((f'unroll_for[{strat.name}][where={w},times={times}]', lambda w=w, times=times, strat=strat: unroll_for(f, w, times, strategy=strat)))
    for _ in range(3):
        if not nfor:
            break
        w = rng.choice(wheres_for)
        # a variable factor must be a free variable of the function itself
        main_src = case.program.source.split('def f(')[-1]
        names = [k for k in ('K2', 'K3') if k in main_src]
        # ... or an integer argument (positive by construction of the inputs)
        names += [nm for nm, t in zip(main_src.split(')')[0].split(', '), case.program.arg_types) if t == 'I'] * 2
        factor = rng.choice([1, 2, 3, 4, 5] + names * 2)
        strat = rng.choice([SplitLoopStrategy.PEEL, SplitLoopStrategy.PEEL, SplitLoopStrategy.STRICT])
        out.append((f'split[{strat.name}][factor={factor},where={w}]', lambda w=w, factor=factor, strat=strat: split(f, factor, w, strategy=strat)))
    if nwhile:
        for _ in range(2):
            w = rng.choice([None] + list(range(nwhile)))
            times = rng.choice([1, 2, 3])
            out.append((f'unroll_while[][where={w},times={times}]', lambda w=w, times=times: unroll_while(f, w, times)))
    out.append(('elim_iter[]', lambda: elim_iter(f)))
    out.append(('elim_iter[][enumerate only]', lambda: elim_iter(f, enable_zip=False)))
    out.append(('elim_iter[][zip only]', lambda: elim_iter(f, enable_enumerate=False)))
    out.append(('fuse[]', lambda: fuse(f)))
    # compositions the docs recommend: elim_iter first, then a loop operator
    if nfor:
        out.append(('elim_iter+unroll_for[PEEL]', lambda: unroll_for(elim_iter(f), None, 2)))
        out.append(('fuse+split[PEEL]', lambda: split(fuse(f), 2)))
    return out


DIRECTED = [
    ('@fp.fpy\ndef f(xss, yss):\n    return [a for a, b in zip(xss, yss) for a in b]\n', ('LL', 'LL')),
    ('@fp.fpy\ndef f(xss, yss):\n    return [sum([a + b for a in a]) for a, b in zip(xss, yss[0])]\n', ('LL', 'LL')),
    ('@fp.fpy\ndef f(xss, yss):\n    return [i + x for i, x in enumerate(xss[0]) for i in yss[0]]\n', ('LL', 'LL')),
    ('@fp.fpy\ndef f(xss, yss):\n    return [sum([x + i for x in x]) for i, x in enumerate(xss)]\n', ('LL', 'LL')),
    ('@fp.fpy\ndef f(xss, yss):\n    s = 0\n    for a, b in zip(xss, yss):\n        s = s + sum([a for a in b]) + sum(a)\n    return s\n', ('LL', 'LL')),
    ('@fp.fpy\ndef f(xs, ys):\n    return [a * b + sum([b for b in xs]) for a, b in zip(xs, ys)]\n', ('L', 'L')),
    ('@fp.fpy\ndef f(xs, ys):\n    return [sum([x + i for i in ys]) + i for i, x in enumerate(xs)]\n', ('L', 'L')),
]


def shard(i: int, n: int, tier: str, seed: int) -> Result:
    from ..diff import run_differential
    from ..gen import prog
    import fpy2 as fp
    res = Result(PROP, tier, seed)
    rng = random.Random(seed * 811 + i)
    total = 640 if tier == "quick" else 12000
    prof = prog.profile(w_for=7, w_while=2.5, w_if=2, w_if1=2, w_early_return=2, w_index_assign=3, w_aug=3, w_with=2.5, w_freevar=0.7,
                        w_copy=0.5, w_const=0.5, hostile_names=HOSTILE, hostile_prob=0.45, shadow_target_prob=0.2, helpers=1, loop_rebinds_iterable_prob=0.3, reduce_prob=0.25, comp_target_shadows_prob=0.4, guarded_reduce_prob=0.3, while_extra_cond_prob=0.6, while_reduce_cond_prob=0.35, loop_writes_int_arg_prob=0.5,
                        args=lambda r: r.choice([('R', 'L'), ('R', 'L', 'L'), ('L',), ('R', 'R', 'L'), ('R', 'L', 'LL'), ('I', 'L'), ('I', 'R', 'L')]))
    lengths = list(range(0, 10)) + [10, 12, 13, 17]

    def inputs(r, p):
        return prog.gen_args(r, p, list_len=r.choice(lengths))

    # comprehension scoping under elim_iter (F71): a later stage that rebinds a zipped / enumerated name, an inner comprehension
    # whose first iterable reads the outer name its own target shadows
    directed = [(prog.HEADER + src, types) for (src, types) in DIRECTED][i::n]
    # STRICT variants: a failed divisibility precondition is the documented outcome
    run_differential(res, PROP, rng, total // n, prof, transforms, ninputs=10, input_hook=inputs, directed=directed,
                     ctx_choices=(None, None, fp.MPFloatContext(3), fp.MPFloatContext(3), fp.FP32, fp.MPFixedContext(1)), tag='c08', accept_exc=('ValueError',),
                     strict_ok=True)
    return res


def main(tier: str) -> int:
    s = get_seed()
    res = Result(PROP, tier, s, rule=RULE)
    res.assumptions = ['oracle: the original program\'s own result; inputs on which the original raises are skipped',
                       'STRICT strategies: AssertionError at run time / ValueError at transform time are the documented outcome when the length is not divisible',
                       'a variable split factor that is not a free variable of the function is a refusal']
    run_shards('vf.checks.c08', 16 if tier == 'quick' else 96, tier, s, timeout=1200 if tier == 'quick' else 3400, res=res)
    v, c = res.counters.get('variants', 0), res.counters.get('variants_changed', 0)
    res.extra['changed_fraction'] = round(c / v, 3) if v else 0
    if v and c < 0.3 * v and not res.violations:
        res.inconclusive.append(f'only {c} of {v} transformed variants differed textually from the original')
    return finish(res)


if __name__ == '__main__':
    shard_main(shard)
