"""
C15 -- an accepted program never reads an unbound name or falls off its end.

Bounded enumeration of program skeletons over {assignment, tuple assignment,
use, if/else, one-armed if, for over a list / range, while with a flag, with /
with-as, comprehension, return}.  Branch conditions are distinct boolean
arguments and loop iterables distinct list arguments, so every combination of
branch outcomes and trip counts {0, 1, 2} is *enumerated* as inputs.

Oracles: (1) the Python runtime's own unbound-variable detection while the real
interpreter runs the accepted program (UnboundLocalError / NameError / KeyError
on an identifier / returning None); (2) a small definite-assignment judgement
written from the language guide, for "must be rejected".
"""
from __future__ import annotations

import itertools
import random

from ..common import Result, finish, run_shards, seed as get_seed, shard_main

PROP = 'C15'
RULE = ('one evaluation = one accepted skeleton run on one combination of branch outcomes and trip counts, or one accept/reject '
        'decision compared with the definite-assignment judgement; non-trivial = distinct accepted skeletons with at least one '
        'compound statement')

NAMES = ['a', 'b']


# --- skeleton AST: tuples ---------------------------------------------------------
# ('set', X, uses)            X = 1 + sum(uses)
# ('tup', X, Y, uses)         X, Y = (1 + uses, 2)
# ('comp', X, uses, L)        X = sum([1 + uses for q in L])   (uses may include 'q')
# ('ret', uses)               return 0 + uses
# ('if', P, body1, body2) ('if1', P, body) ('for', T, L, body) ('forr', T, L, body) ('while', P, body) ('with', alias|None, body)


def simple_stmts(names, allow_ret):
    out = []
    for x in names:
        out.append(('set', x, ()))
        for y in names:
            out.append(('set', x, (y,)))
    out.append(('tup', names[0], names[1], ()))
    out.append(('tup', names[1], names[0], (names[0],)))
    if allow_ret:
        for y in names:
            out.append(('ret', (y,)))
        out.append(('ret', ()))
    return out


class Ctr:
    def __init__(self):
        self.p = 0
        self.l = 0


def render(body, ind, ctr, lines):
    pad = '    ' * ind
    for s in body:
        k = s[0]
        if k == 'set':
            lines.append(f'{pad}{s[1]} = ' + ' + '.join(['1'] + list(s[2])))
        elif k == 'tup':
            lines.append(f'{pad}{s[1]}, {s[2]} = (' + ' + '.join(['1'] + list(s[3])) + ', 2)')
        elif k == 'comp':
            lines.append(f'{pad}{s[1]} = sum([' + ' + '.join(['1'] + list(s[2])) + f' for q in l{s[3]}])')
        elif k == 'ret':
            lines.append(f'{pad}return ' + ' + '.join(['0'] + list(s[1])))
        elif k == 'if':
            lines.append(f'{pad}if p{s[1]}:')
            render(s[2], ind + 1, ctr, lines)
            lines.append(f'{pad}else:')
            render(s[3], ind + 1, ctr, lines)
        elif k == 'if1':
            lines.append(f'{pad}if p{s[1]}:')
            render(s[2], ind + 1, ctr, lines)
        elif k == 'for':
            lines.append(f'{pad}for {s[1]} in l{s[2]}:')
            render(s[3], ind + 1, ctr, lines)
        elif k == 'forr':
            lines.append(f'{pad}for {s[1]} in range(len(l{s[2]})):')
            render(s[3], ind + 1, ctr, lines)
        elif k == 'while':
            lines.append(f'{pad}while p{s[1]}:')
            render(s[2], ind + 1, ctr, lines)
            lines.append(f'{pad}    p{s[1]} = False')
        elif k == 'with':
            lines.append(f'{pad}with fp.FP64' + (f' as {s[1]}' if s[1] else '') + ':')
            render(s[2], ind + 1, ctr, lines)


# --- definite assignment judgement (language guide) -----------------------------------

class Judge:
    """
    D: names definitely bound.  Returns (D_after or None when every path
    returned, problems) -- problems: list of names read while possibly unbound.
    Rules (USAGE.md, Control Flow): a name introduced inside a one-armed `if`,
    a `for` or a `while` body is not accessible after it; a `for` target
    neither; a name introduced in both arms of an if/else is; a `with` body's
    names (and its alias) are.  A path that has returned constrains nothing.
    """

    def __init__(self):
        self.bad = []

    def use(self, D, names):
        for n in names:
            if n not in D:
                self.bad.append(n)

    def block(self, body, D):
        for s in body:
            if D is None:
                return None
            D = self.stmt(s, D)
        return D

    def stmt(self, s, D):
        k = s[0]
        if k == 'set':
            self.use(D, s[2])
            return D | {s[1]}
        if k == 'tup':
            self.use(D, s[3])
            return D | {s[1], s[2]}
        if k == 'comp':
            self.use(D | {'q'}, s[2])
            return D | {s[1]}
        if k == 'ret':
            self.use(D, s[1])
            return None
        if k == 'if':
            d1 = self.block(s[2], set(D))
            d2 = self.block(s[3], set(D))
            if d1 is None:
                return d2
            if d2 is None:
                return d1
            return d1 & d2
        if k == 'if1':
            self.block(s[2], set(D))
            return D
        if k in ('for', 'forr'):
            self.block(s[3], set(D) | {s[1]})
            return D
        if k == 'while':
            self.block(s[2], set(D))
            return D
        if k == 'with':
            d = set(D)
            if s[1]:
                d.add(s[1])
            return self.block(s[2], d)
        raise ValueError(k)


def count_inputs(body):
    ps, ls = set(), set()

    def walk(b):
        for s in b:
            if s[0] in ('if',):
                ps.add(s[1]); walk(s[2]); walk(s[3])
            elif s[0] in ('if1', 'while'):
                ps.add(s[1]); walk(s[2])
            elif s[0] in ('for', 'forr'):
                ls.add(s[2]); walk(s[3])
            elif s[0] == 'comp':
                ls.add(s[3])
            elif s[0] == 'with':
                walk(s[2])
    walk(body)
    return sorted(ps), sorted(ls)


def gen_skeleton(rng, max_top, depth):
    """
    random skeleton; distinct condition / iterable argument per construct.
    Uses are biased towards names assigned *somewhere* earlier in program order
    (also inside bodies), which is where accepted-but-wrong programs live.
    """
    ctr = Ctr()
    M: list = []          # names assigned so far, anywhere

    def pick_uses(k, extra=()):
        pool = [n for n in M] + list(extra)
        out = []
        for _ in range(k):
            if pool and rng.random() < 0.85:
                out.append(rng.choice(pool))
            else:
                out.append(rng.choice(NAMES + ['t']))
        return tuple(out)

    def simple(allow_ret):
        r = rng.random()
        if allow_ret and r < 0.3:
            return ('ret', pick_uses(rng.randint(0, 2)))
        if r < 0.75:
            x = rng.choice(NAMES + (['t'] if rng.random() < 0.2 else []))
            s = ('set', x, pick_uses(rng.choice([0, 1, 1, 2])))
            M.append(x)
            return s
        if r < 0.87:
            x, y = rng.sample(NAMES, 2)
            s = ('tup', x, y, pick_uses(rng.choice([0, 1])))
            M.extend([x, y])
            return s
        l = ctr.l; ctr.l += 1
        x = rng.choice(NAMES)
        s = ('comp', x, pick_uses(rng.choice([0, 1, 2]), extra=('q', 'q')), l)
        M.append(x)
        return s

    def block(n, d, allow_ret_last):
        body = []
        for i in range(n):
            last = i == n - 1
            if d > 0 and rng.random() < 0.45:
                kind = rng.choice(['if', 'if1', 'for', 'forr', 'while', 'with', 'if', 'for'])
                m = rng.randint(1, 2)
                if kind == 'if':
                    p = ctr.p; ctr.p += 1
                    body.append(('if', p, block(m, d - 1, True), block(rng.randint(1, 2), d - 1, True)))
                elif kind == 'if1':
                    p = ctr.p; ctr.p += 1
                    body.append(('if1', p, block(m, d - 1, True)))
                elif kind in ('for', 'forr'):
                    l = ctr.l; ctr.l += 1
                    t = rng.choice(NAMES + ['t', 't'])
                    M.append(t)
                    body.append((kind, t, l, block(m, d - 1, True)))
                elif kind == 'while':
                    p = ctr.p; ctr.p += 1
                    body.append(('while', p, block(m, d - 1, False)))
                else:
                    al = rng.choice([None, None, 'c', 'a'])
                    if al:
                        M.append(al)
                    body.append(('with', al, block(m, d - 1, True)))
            else:
                body.append(simple(allow_ret_last and last))
        return body
    body = block(rng.randint(1, max_top), depth, False)
    if rng.random() < 0.92:
        body.append(('ret', pick_uses(rng.randint(0, 2))))
    return body, ctr


def shard(i: int, n: int, tier: str, seed: int) -> Result:
    import fpy2 as fp
    from ..gen import prog as genprog, run as genrun
    res = Result(PROP, tier, seed)
    rng = random.Random(seed * 977 + i * 31 + 5)
    total = (120000 if tier == "quick" else 1500000) // n
    max_top, depth = (3, 2) if tier == 'quick' else (4, 3)
    seen = set()
    batch = []
    accepted = 0

    def flush(work):
        nonlocal accepted
        if not batch:
            return
        # one module per batch; functions decorated one by one inside try blocks
        lines = ['import fpy2 as fp', '', 'RESULT = {}', '']
        for k, (body, ctr, src) in enumerate(batch):
            lines.append('try:')
            lines.append('    @fp.fpy')
            for ln in src:
                lines.append('    ' + ln)
            lines.append(f'    RESULT[{k}] = f{k}')
            lines.append('except Exception as e:')
            lines.append(f'    RESULT[{k}] = e')
            lines.append('')
        mod = genprog.load_module('\n'.join(lines) + '\n', work, 'c15')
        for k, (body, ctr, src) in enumerate(batch):
            r = mod.RESULT.get(k)
            j = Judge()
            d_end = j.block(body, set())
            falls_off = d_end is not None
            text = '\n'.join(src)
            res.evaluations += 1
            if isinstance(r, Exception):
                res.count(f'rejected:{type(r).__name__}')
                continue
            accepted += 1
            compound = any(s[0] in ('if', 'if1', 'for', 'forr', 'while', 'with') for s in body)
            if compound:
                res.nontrivial += 1
            # (2) must-be-rejected judgement
            if j.bad or falls_off:
                what = 'falls off the end on some path' if falls_off and not j.bad else f'reads {sorted(set(j.bad))} which the language guide makes inaccessible / unbound on some path'
                res.violate({'property': PROP, 'problem': f'accepted although it {what}', 'source': text,
                             'mechanism': {'kind': 'accepted_bad', 'falls_off': falls_off and not j.bad,
                                           'loop_target_after_loop': _is_target_leak(body, j.bad)}})
            # (1) run every combination of branch outcomes and trip counts
            ps, ls = count_inputs(body)
            if (2 ** len(ps)) * (3 ** len(ls)) > 64:
                # sampled without building the product (2^15 * 3^10 combinations for the largest skeletons)
                chosen = set()
                while len(chosen) < 64:
                    chosen.add(tuple(rng.random() < 0.5 for _ in ps) + tuple(rng.choice([0, 1, 2]) for _ in ls))
                combos = sorted(chosen)
            else:
                combos = list(itertools.product(*([[False, True]] * len(ps)), *([[0, 1, 2]] * len(ls))))
            for combo in combos:
                args = [bool(v) for v in combo[:len(ps)]] + [[1.0] * v for v in combo[len(ps):]]
                out = genrun.call(r, args, timeout=3.0)
                res.evaluations += 1
                if out[0] == 'ok':
                    if out[1] == ('none',):
                        res.violate({'property': PROP, 'problem': 'accepted program returned None (fell off its end)', 'source': text, 'args': repr(args),
                                     'mechanism': {'kind': 'runtime', 'exception': 'None'}})
                        break
                    continue
                if out[0] == 'exc':
                    en, msg = out[1], out[2]
                    unbound = en in ('UnboundLocalError', 'NameError') or (en == 'KeyError' and ('SourceId' in msg or 'NamedId' in msg))
                    if unbound:
                        res.violate({'property': PROP, 'problem': f'accepted program failed with {en}: {msg}', 'source': text, 'args': repr(args),
                                     'mechanism': {'kind': 'runtime', 'exception': en, 'judged_bad': bool(j.bad or falls_off),
                                                   'loop_target_after_loop': _is_target_leak(body, j.bad)}})
                        break
                    res.count(f'irrelevant_exception:{en}')
            if len(res.samples) < 3 and compound:
                res.sample({'skeleton': text, 'input_combinations': len(combos)})
        genprog.unload(mod)
        genprog.drop_caches()
        batch.clear()

    with genrun.Scratch(prefix='vf-c15-') as work:
        if i == 0:
            directed(res, work)
        tries = 0
        while len(seen) < total and tries < total * 4:
            tries += 1
            body, ctr = gen_skeleton(rng, max_top, depth)
            lines = []
            render(body, 1, ctr, lines)
            ps, ls = count_inputs(body)
            key = '\n'.join(lines)
            if key in seen:
                continue
            seen.add(key)
            k = len(batch)
            args = [f'p{p}' for p in ps] + [f'l{l}' for l in ls]
            src = [f'def f{k}({", ".join(args)}):'] + lines
            batch.append((body, ctr, src))
            if len(batch) >= 60:
                flush(work)
        flush(work)
    res.counters['skeletons'] = len(seen)
    res.counters['accepted'] = accepted
    return res


DIRECTED_HEADER = """import fpy2 as fp

class _M:
    pass

m = _M()
m.y = 3.0
m.a = 2.0
y = 5.0
a = 7.0

@fp.fpy
def g(x):
    return x + 1

"""

# (tag, body of `def f(c, x, xs, xss)`): shapes at the edges of the definedness rules -- names that are also attributes / globals /
# functions of the enclosing module, names in call position, comprehension stages that read a target of the same comprehension.
# Each is either rejected by the front end or runs without an unbound-name failure on every input below.
DIRECTED = [
    ('attr_name_is_branch_local', 'if c:\n        y = 1\n    return y + m.y'),
    ('attr_name_is_loop_target', 'for y in xs:\n        pass\n    return y + m.y'),
    ('attr_name_is_if1_local', 'if c:\n        a = x\n    t = m.a\n    return a + t'),
    ('callee_is_loop_target', 'for g in xs:\n        pass\n    return g(1.0)'),
    ('callee_is_branch_local', 'if c:\n        g = 1\n    return g(x)'),
    ('comp_stage_reads_own_target', 'a = xss[0]\n    return [a for row in xss for a in a]'),
    ('comp_stage_reads_later_target', 'b = xs\n    return [p + q for p in b for b in xss for q in b]'),
    ('global_shadowed_in_branch', 'if c:\n        y = x\n    return y'),
    ('global_shadowed_by_loop_target', 'for a in xs:\n        pass\n    return a'),
    ('with_alias_after_block', 'if c:\n        with fp.FP32 as k:\n            t = x\n    return k'),
    ('comp_target_after_comp', 'ys = [w for w in xs]\n    return w'),
    ('while_local_after_loop', 'i = 0\n    while i < x:\n        z = i\n        i = i + 1\n    return z'),
]


def directed(res, work):
    from ..gen import prog as genprog, run as genrun
    inputs = [(cc, xv, xs, xss) for cc in (True, False) for xv in (0.0, 2.0) for xs in ([], [1.0], [1.0, 2.0]) for xss in ([[1.0]], [[1.0, 2.0], [3.0]])]
    for tag, body in DIRECTED:
        src = DIRECTED_HEADER + '@fp.fpy\ndef f(c, x, xs, xss):\n    ' + body + '\n'
        try:
            mod = genprog.load_module(src, work, 'c15d')
        except Exception as e:
            res.count(f'directed_rejected:{type(e).__name__}')
            continue
        res.count('directed_accepted')
        for args in inputs:
            out = genrun.call(mod.f, list(args), timeout=3.0)
            res.evaluations += 1
            bad = None
            if out[0] == 'ok' and out[1] == ('none',):
                bad = 'returned None (fell off its end)'
            elif out[0] == 'exc':
                en, msg = out[1], out[2]
                if en in ('UnboundLocalError', 'NameError') or (en == 'KeyError' and ('SourceId' in msg or 'NamedId' in msg)):
                    bad = f'failed with {en}: {msg}'
            if bad:
                res.violate({'property': PROP, 'problem': 'accepted program ' + bad, 'source': src[src.find('@fp.fpy\ndef f('):], 'args': repr(args), 'directed': tag,
                             'mechanism': {'kind': 'runtime', 'directed': tag}})
                break
        genprog.unload(mod)


def _is_target_leak(body, bad):
    """does a name judged bad occur as a `for` target somewhere?"""
    targets = set()

    def walk(b):
        for s in b:
            if s[0] in ('for', 'forr'):
                targets.add(s[1]); walk(s[3])
            elif s[0] == 'if':
                walk(s[2]); walk(s[3])
            elif s[0] in ('if1', 'while', 'with'):
                walk(s[2])
    walk(body)
    return bool(set(bad) & targets)


def main(tier: str) -> int:
    s = get_seed()
    res = Result(PROP, tier, s, rule=RULE)
    res.assumptions = ['oracle 1: the Python runtime raising UnboundLocalError / NameError, or the def-use machinery raising KeyError on an identifier, or a None result',
                       'oracle 2: definite-assignment judgement from USAGE.md (Control Flow); a path that has returned constrains nothing',
                       'other exceptions (TypeError from adding a context alias, ...) are irrelevant and ignored']
    run_shards('vf.checks.c15', 16, tier, s, timeout=1200 if tier == 'quick' else 3400, res=res)
    res.extra['bounds'] = 'top-level statements <= 3 (quick) / 4 (thorough), nesting 2 / 3, names {a, b, t}; inputs: all branch outcomes x trip counts {0,1,2} (capped at 64 combinations per skeleton)'
    return finish(res)


if __name__ == '__main__':
    shard_main(shard)
