"""
C10 -- rounding-lowering rewrites leave the rounding function unchanged.

For every statically constructible context C (all families, modes, overflow
modes, NaN/inf options, substitutes) the quantizer `with C: y = round(x)` (also
`cast`, and a returned round) is lowered by each rewrite alone and by every
prefix of the documented chain
    unfold_special -> unfold_neg_zero -> unfold_overflow(early_check) ->
    float_to_fixed -> rescale_fixed -> simplify
and original and lowered programs are run on the format's breakpoint operands
(finite, subnormal, at/after the overflow threshold, +-0, +-inf, NaN).  A
refusal is always acceptable; what *was* rewritten must agree.  elim_round /
insert_round are exercised on exact-arithmetic programs with pinned argument
formats, on every member of those formats.
"""
from __future__ import annotations

import itertools
import random
from fractions import Fraction

from ..common import Result, finish, run_shards, seed as get_seed, shard_main

PROP = 'C10'
RULE = ('one evaluation = one (context, rewrite chain, operand) comparison of quantize(x) vs lowered(x); non-trivial = '
        'comparisons where the lowered program text differs from the original')

TEMPLATE = '''import fpy2 as fp
from fpy2 import *

C = {ctor}

@fp.fpy(ctx=fp.REAL)
def q_assign(x):
    with C:
        y = fp.round(x)
    return y

@fp.fpy(ctx=fp.REAL)
def q_return(x):
    with C:
        return fp.round(x)

@fp.fpy(ctx=fp.REAL)
def q_cast(x):
    with C:
        y = fp.cast(x)
    return y
'''

TWO_STAGE_TEMPLATE = '''import fpy2 as fp
from fpy2 import *

C1 = {c1}
C2 = {c2}

@fp.fpy(ctx=fp.REAL)
def two_stage(a, b):
    with C1:
        t = {expr}
    with C2:
        y = fp.round(t)
    return y
'''

# first-stage formats whose overflow is a NaN, an infinity, a saturation or a wrap: the operand of the lowered rounding is then
# a special value (or a clamped one) although every argument is a finite integer
STAGE1 = ['fp.MX_E4M3', 'fp.S1E4M3', 'fp.S1E5M2', 'fp.FP16', 'fp.FP8P3', 'fp.MX_E5M2', 'fp.MX_E3M2', 'fp.MX_E2M1', 'fp.MX_E8M0', 'fp.BF16',
          'fp.SINT8', 'fp.UINT8', 'fp.FixedContext(True, 0, 8, fp.RM.RNE, fp.OV.SATURATE)', 'fp.IEEEContext(3, 7, fp.RM.RTZ)',
          'fp.EFloatContext(4, 8, False, fp.EFloatNanKind.MAX_VAL, 0, rm=fp.RM.RTP)']
STAGE2 = ['fp.MX_E3M2', 'fp.MX_E2M1', 'fp.MX_E2M3', 'fp.MX_E4M3', 'fp.S1E4M3', 'fp.FP8P3', 'fp.FP16', 'fp.MX_E5M2', 'fp.SINT8',
          'fp.FixedContext(True, -2, 8, fp.RM.RNE, fp.OV.SATURATE)', 'fp.IEEEContext(4, 8, fp.RM.RTN)']
STAGE_EXPRS = ['a * b', 'a + b', 'a - b', 'a * a', '(a * b) + a', 'fp.round(a) * 64', '-(a * b)', 'abs(a) * b']
INT_TYPES = ['fp.SINT16', 'fp.SINT8', 'fp.UINT8', 'fp.SINT32', None]
INT_OPERANDS = [0, 1, -1, 2, 3, -3, 4, 5, -7, 9, 15, 16, -16, 20, 21, 22, 27, 28, 29, 31, 60, 64, 100, -100, 127, -128, 200, 255, 300, 448, 449, 480, 1000, -1000,
                4096, 32767, -32768, 65504, 65520, 100000]

ARITH_TEMPLATE = '''import fpy2 as fp
from fpy2 import *

A = {a}
B = {b}

@fp.fpy
def e_prod3(x, y, z):
    return (x * y) * z

@fp.fpy
def e_sum(x, y, z):
    t = x + y
    return t - z

@fp.fpy
def e_round(x, y, z):
    with B:
        u = fp.round(x)
        v = fp.round(y * z)
    return u + v

@fp.fpy
def e_exact(x, y, z):
    with fp.REAL:
        t = (x * y) + z
        s = -t
    return abs(s)
'''


ALWAYS = ['SMFixedContext(2, 3, RM.RTZ, OV.WRAP)', 'SMFixedContext(-3, 3, RM.RNE, OV.WRAP)', 'SMFixedContext(0, 3, RM.RNA, OV.WRAP)', 'SMFixedContext(1, 2, RM.RTZ, OV.WRAP)',
          'FixedContext(True, 2, 3, RM.RTZ, OV.WRAP)', 'FixedContext(False, 0, 2, RM.RNE, OV.WRAP)',
          # formats whose negative bound reaches further than the positive one AND whose overflow result is not the bound (an infinity
          # or a substitute): the two thresholds of an early overflow check differ and crossing either is observable (seeded C10-4)
          'FixedContext(True, 0, 5, RM.RNE, OV.OVERFLOW, inf_value=Float(c=0))', 'FixedContext(True, -2, 5, RM.RNA, OV.OVERFLOW, inf_value=Float(c=15, exp=-2))',
          'MPBFixedContext(-1, RealFloat(exp=0, c=15), RM.RNE, OV.OVERFLOW, neg_maxval=RealFloat(s=True, exp=0, c=16), enable_inf=True)',
          'MPBFixedContext(-3, RealFloat(exp=0, c=5), RM.RTP, OV.OVERFLOW, neg_maxval=RealFloat(s=True, exp=0, c=12), enable_inf=True)',
          'MPBFloatContext(3, -2, RealFloat(exp=0, c=6), RM.RNE, OV.OVERFLOW, neg_maxval=RealFloat(s=True, exp=1, c=7), enable_inf=True)']


def chain_steps():
    from fpy2.strategies import (unfold_special, unfold_neg_zero, unfold_overflow, float_to_fixed, rescale_fixed, simplify)
    return [
        ('unfold_special', lambda f: unfold_special(f)),
        ('unfold_neg_zero', lambda f: unfold_neg_zero(f)),
        ('unfold_overflow', lambda f: unfold_overflow(f)),
        ('unfold_overflow_early', lambda f: unfold_overflow(f, early_check=True)),
        ('float_to_fixed', lambda f: float_to_fixed(f)),
        ('rescale_fixed', lambda f: rescale_fixed(f)),
        ('simplify', lambda f: simplify(f)),
    ]


def variants(f, rng):
    """(label, thunk) list: each rewrite alone, every prefix of the chain (both overflow variants), a few shuffles."""
    steps = dict(chain_steps())
    out = []
    for name, fn in steps.items():
        out.append((name, lambda fn=fn: fn(f)))
    for ov in ('unfold_overflow', 'unfold_overflow_early'):
        order = ['unfold_special', 'unfold_neg_zero', ov, 'float_to_fixed', 'rescale_fixed', 'simplify']
        for k in range(2, len(order) + 1):
            pre = order[:k]

            def run(pre=pre):
                g = f
                for nm in pre:
                    g = steps[nm](g)
                return g
            out.append(('chain:' + '>'.join(pre), run))
    # orders the docs do not forbid: rewrites refuse what they cannot do exactly
    for _ in range(2):
        order = rng.sample(['unfold_special', 'unfold_neg_zero', 'unfold_overflow', 'float_to_fixed', 'rescale_fixed'], 3)

        def run2(order=order):
            g = f
            for nm in order:
                g = steps[nm](g)
            return g
        out.append(('shuffle:' + '>'.join(order), run2))
    return out


def shard(i: int, n: int, tier: str, seed: int) -> Result:
    import fpy2 as fp
    from fpy2.number import Float, RealFloat
    from ..gen import ctxs, operands, prog as genprog, run as genrun
    from ..oracle.describe import describe

    res = Result(PROP, tier, seed)
    rng = random.Random(seed * 13007 + i)
    quick = tier == 'quick'
    allc = [t for fam, t in ctxs.contexts('quick' if quick else 'thorough') if fam != 'exp']
    random.Random(2024 + seed).shuffle(allc)
    # 640 sampled contexts per seed in quick, 12000 of the 32936 in thorough (all of them took a loaded machine past the shard budget)
    allc = allc[:640] if quick else allc[:12000]
    # contexts behind findings of thorough runs, in every run (F73: 3-bit sign-magnitude wrap whose two overflow probes coincide)
    allc = [c for c in ALWAYS if c not in allc] + allc
    mine = allc[i::n]
    changed = variants_n = 0
    specials = [o for (_, o, _) in operands.specials() if isinstance(o, Float)]
    with genrun.Scratch(prefix='vf-c10-') as work:
        for text in mine:
            # RM / OV / Float / RealFloat / EFloatNanKind are exported by `from fpy2 import *`
            src = TEMPLATE.format(ctor=text)
            try:
                mod = genprog.load_module(src, work, 'c10')
            except Exception as e:
                res.count(f'module_rejected:{type(e).__name__}')
                continue
            res.count('contexts')
            fd = describe(mod.C)
            pts = operands.breakpoints(fd, dense=False)
            if len(pts) > (50 if quick else 120):
                pts = rng.sample(pts, 50 if quick else 120)
            ops = [Float(x=RealFloat.from_rational(v)) for v in pts if genops_dyadic(v)] + specials
            for fname in ('q_assign', 'q_return', 'q_cast'):
                f = getattr(mod, fname)
                if fname != 'q_assign' and rng.random() < (0.6 if quick else 0.0):
                    continue
                # reference results
                refs = []
                for x in ops:
                    r = genrun.call(f, [x], timeout=5.0)
                    refs.append(r)
                orig_text = f.format()
                for label, thunk in variants(f, rng):
                    out = genrun.guarded(thunk, timeout=20.0)
                    if out[0] == 'timeout':
                        res.count('transform_timeout')
                        continue
                    if out[0] == 'exc':
                        en = type(out[1]).__name__
                        if en in ('TransformDeclined', 'TransformReferenceError'):
                            res.count(f'refused:{en}')
                            continue
                        res.evaluations += 1
                        res.violate({'property': PROP, 'context': text, 'function': fname, 'rewrite': label,
                                     'problem': f'rewrite raised {en}: {str(out[1])[:300]}',
                                     'mechanism': {'kind': 'transform_crash', 'exception': en, 'rewrite': label.split(':')[0], 'family': fd.family}})
                        continue
                    g = out[1]
                    variants_n += 1
                    try:
                        new_text = g.format()
                    except Exception:
                        new_text = '<unformattable>'
                    diff = new_text != orig_text
                    changed += diff
                    for x, ref in zip(ops, refs):
                        if ref[0] != 'ok':
                            res.count('orig_raises')
                            continue
                        r = genrun.call(g, [x], timeout=5.0)
                        if r[0] == 'timeout':
                            res.count('lowered_timeout')     # watchdog: inconclusive for this operand, never a verdict
                            continue
                        res.evaluations += 1
                        if r[0] == 'ok' and r[1] == ref[1]:
                            res.nontrivial += diff
                            continue
                        got = genrun.show(r[1]) if r[0] == 'ok' else f'raised {r[1]}: {r[2]}'
                        res.violate({'property': PROP, 'context': text, 'function': fname, 'rewrite': label, 'operand': repr(x),
                                     'original': genrun.show(ref[1]), 'lowered': got, 'lowered_program': new_text[:3000],
                                     'problem': 'lowered program disagrees with the original rounding',
                                     'mechanism': {'kind': 'value' if r[0] == 'ok' else 'raises', 'rewrite': label.split(':')[0],
                                                   'family': fd.family, 'overflow_mode': fd.overflow}})
                        break
            if len(res.samples) < 2:
                res.sample({'context': text, 'operands': len(ops), 'variants_per_function': len(variants(mod.q_assign, rng))})
            genprog.unload(mod)

        # -- two-stage programs: the lowered rounding reads what an earlier rounding produced ---------
        _two_stage(res, rng, work, i, n, quick, allc)
        # -- elim_round / insert_round on exact-arithmetic programs ------------------------
        _arith(res, rng, work, i, n, quick)
    res.counters['variants'] = variants_n
    res.counters['variants_changed'] = changed
    return res


def _two_stage(res, rng, work, i, n, quick, allc):
    import fpy2 as fp
    from fpy2 import strategies as st
    from fpy2.types import RealType
    from ..gen import prog as genprog, run as genrun
    count = (10 if quick else 60)
    r2 = random.Random(rng.random())
    for k in range(count):
        c1 = r2.choice(STAGE1) if r2.random() < 0.75 else r2.choice(allc)
        c2 = r2.choice(STAGE2) if r2.random() < 0.75 else r2.choice(allc)
        expr = r2.choice(STAGE_EXPRS)
        ty = r2.choice(INT_TYPES)
        src = TWO_STAGE_TEMPLATE.format(c1=c1, c2=c2, expr=expr)
        try:
            mod = genprog.load_module(src, work, 'c10t')
        except Exception as e:
            res.count(f'module_rejected:{type(e).__name__}')
            continue
        f = mod.two_stage
        try:
            if ty is not None:
                T = eval(ty, {'fp': fp})
                f = st.monomorphize(f, args=[RealType(T), RealType(T)])
                vals = [v for v in INT_OPERANDS if T.representable_under(fp.Float.from_int(v))]
            else:
                vals = INT_OPERANDS
        except Exception as e:
            res.count(f'two_stage_monomorphize_refused:{type(e).__name__}')
            genprog.unload(mod)
            continue
        res.count('two_stage_programs')
        pairs = [(a, b) for a in vals for b in vals]
        r2.shuffle(pairs)
        pairs = pairs[:60 if quick else 200]
        refs = [genrun.call(f, [a, b], timeout=5.0) for (a, b) in pairs]
        orig_text = f.format()
        for label, thunk in variants(f, r2):
            out = genrun.guarded(thunk, timeout=20.0)
            if out[0] == 'timeout':
                res.count('transform_timeout')
                continue
            if out[0] == 'exc':
                en = type(out[1]).__name__
                if en in ('TransformDeclined', 'TransformReferenceError'):
                    res.count(f'refused:{en}')
                    continue
                res.evaluations += 1
                res.violate({'property': PROP, 'context': f'{c1} -> {c2}', 'function': 'two_stage', 'rewrite': label, 'source': src, 'arg_type': ty,
                             'problem': f'rewrite raised {en}: {str(out[1])[:300]}',
                             'mechanism': {'kind': 'transform_crash', 'exception': en, 'rewrite': label.split(':')[0], 'family': 'two_stage'}})
                continue
            g = out[1]
            try:
                new_text = g.format()
            except Exception:
                new_text = '<unformattable>'
            diff = new_text != orig_text
            res.count('two_stage_variants')
            res.count('two_stage_variants_changed', int(diff))
            for (a, b), ref in zip(pairs, refs):
                if ref[0] != 'ok':
                    res.count('orig_raises')
                    continue
                r = genrun.call(g, [a, b], timeout=5.0)
                if r[0] == 'timeout':
                    res.count('lowered_timeout')
                    continue
                res.evaluations += 1
                if r[0] == 'ok' and r[1] == ref[1]:
                    res.nontrivial += diff
                    if ref[1][0] == 'n' and ref[1][1] in ('nan', '+inf', '-inf'):
                        res.count('two_stage_special_results_agreed')
                    continue
                got = genrun.show(r[1]) if r[0] == 'ok' else f'raised {r[1]}: {r[2]}'
                res.violate({'property': PROP, 'context': f'{c1} -> {c2}', 'function': 'two_stage', 'rewrite': label, 'operand': repr((a, b)), 'arg_type': ty,
                             'source': src, 'original': genrun.show(ref[1]), 'lowered': got, 'lowered_program': new_text[:3000],
                             'problem': 'lowered two-stage program disagrees with the original',
                             'mechanism': {'kind': 'value' if r[0] == 'ok' else 'raises', 'rewrite': label.split(':')[0], 'family': 'two_stage'}})
                break
        genprog.unload(mod)


def _zero_sign_only(a, b) -> bool:
    """two normalised results that differ only in the sign of a zero"""
    return a[0] == 'n' and b[0] == 'n' and len(a) == 3 and len(b) == 3 and a[2] == 0 and b[2] == 0 and a[1] != b[1]


def genops_dyadic(v: Fraction) -> bool:
    return v.denominator & (v.denominator - 1) == 0


def _arith(res, rng, work, i, n, quick):
    import fpy2 as fp
    from fpy2.number import Float, RealFloat
    from fpy2.strategies import monomorphize, elim_round, insert_round, simplify
    from fpy2.types import RealType
    from ..gen import ctxs, operands, prog as genprog, run as genrun
    from ..oracle.describe import describe
    small = ['MPSFloatContext(3, -2)', 'IEEEContext(3, 6)', 'MPSFloatContext(2, 0)', 'FixedContext(True, -2, 6, RM.RNE, OV.SATURATE)', 'IEEEContext(2, 5)',
             'MPFixedContext(-2)', 'MPFloatContext(4)']
    outer = ['IEEEContext(4, 10)', 'MPSFloatContext(6, -6)', 'MPFloatContext(9)', 'IEEEContext(3, 6)', 'MPFixedContext(-6)', 'fp.FP32', 'MPSFloatContext(3, -2)',
             'FixedContext(True, -6, 16, RM.RNE, OV.SATURATE)', 'MPFloatContext(3, RM.RTZ)']
    combos = [(a, b) for a in small for b in outer]
    for (a, b) in combos[i::n]:
        try:
            mod = genprog.load_module(ARITH_TEMPLATE.format(a=a, b=b), work, 'c10a')
        except Exception as e:
            res.count(f'arith_module_rejected:{type(e).__name__}')
            continue
        fa = describe(mod.A)
        fb_family = describe(mod.B).family
        mags = operands.representable_mags(fa, limit=24)
        if fa.pos_max is not None:
            mags = [m for m in mags if m <= fa.pos_max]
        vals = [Fraction(0)] + mags[:14] + [-m for m in mags[:14] if fa.neg_max is None or -m >= fa.neg_max]
        objs = [mod.A.round(v) for v in vals]
        triples = [tuple(rng.choice(objs) for _ in range(3)) for _ in range(40 if quick else 300)]
        for fname in ('e_prod3', 'e_sum', 'e_round', 'e_exact'):
            f = getattr(mod, fname)
            try:
                pinned = monomorphize(f, mod.B, [RealType(mod.A)] * 3)
            except Exception as e:
                res.count(f'monomorphize_refused:{type(e).__name__}')
                continue
            refs = [genrun.call(pinned, list(t), timeout=5.0) for t in triples]
            todo = [('elim_round', lambda: elim_round(pinned)), ('elim_round+simplify', lambda: simplify(elim_round(pinned)))]
            for tgt in (mod.B, fp.FP64, mod.A):
                todo.append((f'insert_round[{tgt!r}]'[:60], lambda tgt=tgt: insert_round(pinned, tgt)))
                todo.append((f'insert_round+elim_round[{tgt!r}]'[:60], lambda tgt=tgt: elim_round(insert_round(pinned, tgt))))
            for label, thunk in todo:
                out = genrun.guarded(thunk, timeout=20.0)
                if out[0] != 'ok':
                    if out[0] == 'exc' and type(out[1]).__name__ in ('TransformDeclined', 'TransformReferenceError'):
                        res.count('refused:' + type(out[1]).__name__)
                    elif out[0] == 'exc':
                        res.evaluations += 1
                        res.violate({'property': PROP, 'context': f'A={a} B={b}', 'function': fname, 'rewrite': label,
                                     'problem': f'rewrite raised {type(out[1]).__name__}: {str(out[1])[:300]}',
                                     'mechanism': {'kind': 'transform_crash', 'exception': type(out[1]).__name__, 'rewrite': label.split('[')[0],
                                                   'b_family': fb_family, 'message': str(out[1]).split('=')[0].split(':')[0][:40]}})
                    continue
                g = out[1]
                diff = g.format() != pinned.format()
                res.count('arith_variants')
                for t, ref in zip(triples, refs):
                    if ref[0] != 'ok':
                        continue
                    r = genrun.call(g, list(t), timeout=5.0)
                    if r[0] == 'timeout':
                        res.count('lowered_timeout')
                        continue
                    res.evaluations += 1
                    if r[0] == 'ok' and r[1] == ref[1]:
                        res.nontrivial += diff
                        continue
                    got = genrun.show(r[1]) if r[0] == 'ok' else f'raised {r[1]}: {r[2]}'
                    res.violate({'property': PROP, 'context': f'A={a} B={b}', 'function': fname, 'rewrite': label, 'operand': repr([str(x) for x in t]),
                                 'original': genrun.show(ref[1]), 'lowered': got, 'lowered_program': g.format()[:2000],
                                 'problem': 'program after removing / inserting a rounding disagrees',
                                 'mechanism': {'kind': 'value' if r[0] == 'ok' else 'raises', 'rewrite': label.split('[')[0], 'b_family': fb_family,
                                               'zero_sign_only': r[0] == 'ok' and _zero_sign_only(ref[1], r[1])}})
                    break
        genprog.unload(mod)


def main(tier: str) -> int:
    s = get_seed()
    res = Result(PROP, tier, s, rule=RULE)
    res.assumptions = ['oracle: the original quantizer (itself under the C01 oracle in check C01); operands on which the original raises are counted, not compared',
                       'a refusal (TransformDeclined, or a site not rewritten) is always acceptable']
    run_shards('vf.checks.c10', 16 if tier == 'quick' else 48, tier, s, timeout=1500 if tier == 'quick' else 3400, res=res)
    v, c = res.counters.get('variants', 0), res.counters.get('variants_changed', 0)
    res.extra['changed_fraction'] = round(c / v, 3) if v else 0
    if v and c < 0.25 * v and not res.violations:
        res.inconclusive.append(f'only {c} of {v} lowered variants differed textually from the original')
    return finish(res)


if __name__ == '__main__':
    shard_main(shard)
