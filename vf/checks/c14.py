"""
C14 -- format inference bounds every run-time value.

Three monitors:

  (a) trace: generated "numeric" programs are analysed by the real
      FormatInfer under a pinned (caller context, argument formats) signature
      and run -- through the tracing compiler of vf/monitors/trace.py -- on
      arguments enumerated from those argument formats; every evaluated
      expression value must be a member of by_expr[e], the returned value of
      fn_fmt.ret_fmt (own membership predicates; sign of zero, infinities and
      NaN included).
  (b) abstract arithmetic: for pairs of AbstractFormats (those of the
      enumerated small contexts and everything the operators produce from them)
      and all members in a window: a+b in A+B, a-b in A-B, a*b in A*B, -a in -A,
      |a| in |A|, a in A|B, and A <= B only if no member of A is outside B.
      Exact results come from the Fraction oracle with IEEE-754 zero-sign rules.
  (c) round_is_identity(A, ctx) true only if the rounding oracle returns every
      member of A unchanged under ctx.
"""
from __future__ import annotations

import itertools
import random
from fractions import Fraction

from ..common import Result, finish, run_shards, seed as get_seed, shard_main

PROP = 'C14'
RULE = ('one evaluation = one membership judged: a traced value against its inferred format (a), an exact result of two members against the format of the '
        'abstract operation (b), a member against round_is_identity (c); non-trivial = judgements against a format that is not the top (REAL_FORMAT / '
        'unbounded abstract format), distinct by (program or format pair, expression or operation, member pair)')


# ---------------------------------------------------------------------------------------------
# membership predicates (mine)

def _rf_frac(x):
    """RealFloat | float('inf') -> Fraction | None (unbounded)"""
    if isinstance(x, float):
        return None
    v = Fraction(x.c) * (Fraction(2) ** x.exp)
    return -v if x.s else v


def sigbits(v: Fraction) -> int:
    n = abs(v.numerator)
    while n % 2 == 0 and n:
        n //= 2
    return n.bit_length()


def is_dyadic(v: Fraction) -> bool:
    d = v.denominator
    return d & (d - 1) == 0


def af_member(af, v) -> bool:
    """v: denotation ('fin', neg, mag) / ('inf', neg) / ('nan',)"""
    if v[0] == 'nan':
        return bool(af.has_nan)
    if v[0] == 'inf':
        return bool(af.has_neg_inf if v[1] else af.has_pos_inf)
    neg, mag = v[1], v[2]
    if mag == 0:
        return bool(af.has_neg_zero) if neg else True
    if not is_dyadic(mag):
        return False
    x = -mag if neg else mag
    pb, nb = _rf_frac(af.pos_bound), _rf_frac(af.neg_bound)
    if pb is not None and x > pb:
        return False
    if nb is not None and x < nb:
        return False
    if not isinstance(af.exp, float):
        q = mag / (Fraction(2) ** int(af.exp))
        if q.denominator != 1:
            return False
    if not isinstance(af.prec, float):
        if sigbits(mag) > af.prec:
            return False
    return True


def af_is_top(af) -> bool:
    return isinstance(af.prec, float) and isinstance(af.exp, float) and isinstance(af.pos_bound, float) and isinstance(af.neg_bound, float)


def af_members(af, cap=28):
    """members in a window: magnitudes c * 2^e, e from max(exp, -5) up, c < 2^min(prec, 4); specials by flag; both zeros"""
    out = [('fin', False, Fraction(0))]
    if af.has_neg_zero:
        out.append(('fin', True, Fraction(0)))
    if af.has_nan:
        out.append(('nan',))
    if af.has_pos_inf:
        out.append(('inf', False))
    if af.has_neg_inf:
        out.append(('inf', True))
    e0 = -5 if isinstance(af.exp, float) else int(af.exp)
    p = 4 if isinstance(af.prec, float) else min(int(af.prec), 4)
    pb, nb = _rf_frac(af.pos_bound), _rf_frac(af.neg_bound)
    mags = set()
    for e in range(e0, e0 + 9):
        for c in range(1, 1 << p):
            mags.add(Fraction(c) * Fraction(2) ** e)
    # the bounds themselves and their neighbours matter most
    for b in (pb, nb):
        if b is not None and b != 0:
            mags.add(abs(b))
    fin = []
    for m in sorted(mags):
        for neg in (False, True):
            v = ('fin', neg, m)
            if af_member(af, v):
                fin.append(v)
    if len(fin) > cap:
        # keep the extremes and a spread
        keep = fin[:6] + fin[-8:]
        step = max(1, len(fin) // (cap - 14))
        keep += fin[6:-8:step]
        fin = keep
    return out + fin


def bound_member(bound, val, fp) -> bool | None:
    """run-time value (Float / Fraction / int / bool / list / tuple) against a FormatBound; None = not judged"""
    from fpy2.analysis.format_infer import SetFormat, TupleFormat, ListFormat, AbstractFormat
    from fpy2.analysis.format_infer.analysis import NegZero, Special
    from fpy2.number import Float, RealFloat
    from fpy2.number.context.format import Format
    from fpy2.number.context.real import RealFormat
    if bound is None:
        return None
    if isinstance(bound, TupleFormat):
        if not isinstance(val, tuple) or len(val) != len(bound.elts):
            return None
        rs = [bound_member(b, v, fp) for b, v in zip(bound.elts, val)]
        return False if any(r is False for r in rs) else (True if any(r for r in rs) else None)
    if isinstance(bound, ListFormat):
        if not isinstance(val, list):
            return None
        rs = [bound_member(bound.elt, v, fp) for v in val]
        return False if any(r is False for r in rs) else (True if any(r for r in rs) else None)
    if isinstance(val, (bool, list, tuple)) or not isinstance(val, (Float, Fraction, int)):
        return None
    from ..oracle.describe import to_val
    d = to_val(val)
    if isinstance(bound, SetFormat):
        for m in bound.values:
            if isinstance(m, NegZero):
                if d[0] == 'fin' and d[2] == 0 and d[1]:
                    return True
            elif isinstance(m, Special):
                if (m is Special.NAN and d[0] == 'nan') or (m is Special.POS_INF and d == ('inf', False)) or (m is Special.NEG_INF and d == ('inf', True)):
                    return True
            else:
                if d[0] == 'fin' and (-d[2] if d[1] else d[2]) == m and not (d[2] == 0 and d[1]):
                    return True
        return False
    if isinstance(bound, AbstractFormat):
        return af_member(bound, d)
    if isinstance(bound, RealFormat):
        return True
    if isinstance(bound, Format):
        # concrete number formats: the number library's own membership test (validated by C01 / C16)
        if d[0] == 'fin' and not is_dyadic(d[2]):
            return False
        x = val if isinstance(val, Float) else Float.from_rational(Fraction(val)) if hasattr(Float, 'from_rational') else None
        if x is None:
            x = Float(x=RealFloat.from_rational(Fraction(val)))
        try:
            return bool(bound.representable_in(x))
        except Exception:
            return None
    return None


# ---------------------------------------------------------------------------------------------
# (b) + (c)

SMALL_CTXS = ['fp.MPFloatContext(2)', 'fp.MPFloatContext(3)', 'fp.MPSFloatContext(2, -2)', 'fp.MPSFloatContext(3, -3)', 'fp.IEEEContext(2, 5)', 'fp.IEEEContext(3, 6)',
              'fp.IEEEContext(4, 8)', 'fp.MPFixedContext(-3)', 'fp.MPFixedContext(0)', 'fp.MPFixedContext(1)', 'fp.MPFixedContext(-2, enable_neg_zero=False)',
              'fp.FixedContext(True, -2, 5)', 'fp.FixedContext(False, 0, 4)', 'fp.FixedContext(True, 0, 4)', 'fp.FixedContext(True, 1, 4)', 'fp.SMFixedContext(-1, 5)',
              'fp.MPBFixedContext(-2, fp.RealFloat.from_int(3))', 'fp.MPBFloatContext(3, -2, fp.RealFloat.from_int(6))', 'fp.ExpContext(3)', 'fp.REAL', 'fp.INTEGER',
              'fp.EFloatContext(3, 6, True, fp.EFloatNanKind.MAX_VAL, 0)', 'fp.EFloatContext(2, 5, False, fp.EFloatNanKind.NEG_ZERO, 1)', 'fp.FP16',
              'fp.MPFixedContext(-1, enable_nan=True, enable_inf=True)', 'fp.MPFloatContext(3, enable_nan=False, enable_inf=False)' ]


def base_formats(fp):
    from fpy2.analysis.format_infer import AbstractFormat
    from fpy2.number import RealFloat
    out = []
    for text in SMALL_CTXS:
        try:
            ctx = eval(text, {'fp': fp})
            af = AbstractFormat.from_format(ctx.format())
        except Exception:
            continue
        out.append((text, af))
    # hand-made ones: asymmetric bounds, every flag combination on a small grid
    R = RealFloat.from_rational if hasattr(RealFloat, 'from_rational') else None
    k = 0
    for prec in (1, 2, 3, float('inf')):
        for exp in (-2, 0, 1, float('-inf')):
            for (pb, nb) in ((Fraction(0), Fraction(0)), (Fraction(3, 4), Fraction(-3, 4)), (Fraction(1), Fraction(-2)), (Fraction(3, 2), Fraction(0)), (Fraction(4), Fraction(-4)),
                             (None, None), (Fraction(6), None)):
                k += 1
                flags = ((k >> 0) & 1, (k >> 1) & 1, (k >> 2) & 1, (k >> 3) & 1)
                try:
                    pbv = float('inf') if pb is None else R(pb)
                    nbv = float('-inf') if nb is None else R(nb)
                    af = AbstractFormat(prec, exp, pbv, neg_bound=nbv, has_pos_inf=bool(flags[0]), has_neg_inf=bool(flags[1]), has_nan=bool(flags[2]),
                                        has_neg_zero=bool(flags[3]))
                except Exception:
                    continue
                # well-formed only if the bounds are members (or zero / unbounded)
                ok = True
                for b, neg in ((pb, False), (nb, True)):
                    if b is not None and b != 0 and not af_member(af, ('fin', neg, abs(b))):
                        ok = False
                if ok:
                    out.append((f'A({prec},{exp},{pb},{nb},{flags})', af))
    return out


def select_oracle(a, b, is_min: bool):
    """IEEE 754-2019 minimum / maximum on denotations: a NaN operand gives NaN, -0 < +0"""
    if a[0] == 'nan' or b[0] == 'nan':
        return ('nan',)

    def key(v):
        if v[0] == 'inf':
            return (-2 if v[1] else 2, 0)
        if v[2] == 0:
            return (0, -1 if v[1] else 1)
        return (-1 if v[1] else 1, -v[2] if v[1] else v[2])

    # order: -inf < negatives < -0 < +0 < positives < +inf
    ka, kb = key(a), key(b)
    lo, hi = (a, b) if ka <= kb else (b, a)
    return lo if is_min else hi


def select_monitor(res: Result, fp, rng, i, n, quick):
    """exact_select (the format of min / max) over pairs and triples of concrete formats and value sets: whichever operand IEEE
    minimum / maximum returns must be a member of the result"""
    from fpy2.analysis.format_infer import AbstractFormat, exact_select
    from fpy2.analysis.format_infer.analysis import SetFormat, Special, NEG_ZERO
    operands = []          # (text, bound, members)
    for text in SMALL_CTXS + ['fp.SINT8', 'fp.UINT8', 'fp.FixedContext(True, -3, 6)']:
        try:
            fmt = eval(text, {'fp': fp}).format()
            operands.append((text, fmt, af_members(AbstractFormat.from_format(fmt))))
        except Exception:
            continue
    F = Fraction
    sets = [{Special.NEG_INF}, {Special.POS_INF}, {Special.NEG_INF, F(1)}, {Special.POS_INF, F(-2), F(0)}, {Special.NAN, F(3)}, {NEG_ZERO, F(0)}, {NEG_ZERO},
            {F(-3), F(5)}, {F(1, 2)}, {F(0)}, {F(-1, 4), F(-8)}, {Special.NEG_INF, Special.POS_INF}, {F(100)}, {F(-100), Special.NAN}, {F(7), NEG_ZERO, Special.NEG_INF}]

    def den(v):
        if v is Special.NAN:
            return ('nan',)
        if v is Special.POS_INF:
            return ('inf', False)
        if v is Special.NEG_INF:
            return ('inf', True)
        if v == NEG_ZERO and not isinstance(v, Fraction):
            return ('fin', True, Fraction(0))
        return ('fin', v < 0, abs(v))
    for vs in sets:
        operands.append(('{' + ', '.join(sorted(str(v) for v in vs)) + '}', SetFormat(frozenset(vs)), [den(v) for v in vs]))
    combos = list(itertools.product(range(len(operands)), repeat=2))
    trip = list(itertools.product(range(len(operands)), repeat=3))
    random.Random(77).shuffle(trip)
    combos = [c for c in combos] + trip[:(600 if quick else 6000)]
    from ..oracle.describe import val_str
    for c in combos[i::n]:
        ops = [operands[k] for k in c]
        for is_min in (True, False):
            try:
                R = exact_select([o[1] for o in ops], is_min=is_min)
            except Exception as e:
                res.count(f'operator_raised:exact_select:{type(e).__name__}')
                continue
            if R is None:
                res.count('exact_select_declined')
                continue
            res.count('exact_select_formats')
            top = af_is_top(R)
            bad = None
            for vals in itertools.product(*[o[2] for o in ops]):
                r = vals[0]
                for v in vals[1:]:
                    r = select_oracle(r, v, is_min)
                res.evaluations += 1
                res.nontrivial += 0 if top else 1
                if not af_member(R, r):
                    bad = (vals, r)
                    break
            if bad:
                vals, r = bad
                res.violate({'property': PROP, 'part': 'abstract arithmetic', 'operation': 'min' if is_min else 'max', 'operands': [o[0] for o in ops],
                             'values': [val_str(v) for v in vals], 'exact_result': val_str(r), 'result_format': str(R),
                             'problem': 'the operand that min / max returns is outside the format exact_select gives the selection',
                             'mechanism': {'part': 'abstract_arith', 'op': 'min' if is_min else 'max', 'kind': 'neg_zero' if (r[0] == 'fin' and r[2] == 0 and r[1]) else 'value'}})


def arith_monitor(res: Result, fp, rng, i, n, quick):
    from fpy2.analysis.format_infer import AbstractFormat, round_is_identity
    from ..oracle import arith, rnd
    from ..oracle.describe import describe
    base = base_formats(fp)
    res.extra['base_formats'] = len(base)
    # depth-2 closure, sampled
    derived = []
    pairs = list(itertools.product(range(len(base)), repeat=2))
    rng.shuffle(pairs)
    for (x, y) in pairs[:60]:
        A, B = base[x][1], base[y][1]
        for nm, f in (('+', lambda: A + B), ('*', lambda: A * B), ('-', lambda: A - B), ('|', lambda: A | B), ('neg', lambda: -A), ('abs', lambda: abs(A))):
            try:
                derived.append((f'({base[x][0]} {nm} {base[y][0]})', f()))
            except Exception:
                pass
    fmts = base + derived
    allpairs = list(itertools.product(range(len(fmts)), repeat=2))
    random.Random(4242).shuffle(allpairs)
    mine = allpairs[i::n]
    if quick:
        mine = mine[:260]
    else:
        mine = mine[:6000]
    members_cache = {}

    def mem(ix):
        if ix not in members_cache:
            members_cache[ix] = af_members(fmts[ix][1])
        return members_cache[ix]

    def ideal(v):
        """strip notes; an exact zero sum of opposite operands is +0 under REAL"""
        if v is None:
            return None
        if isinstance(v[-1], dict):
            v = v[:-1]
        return v

    def viol(op, A, B, a, b, r, R, problem, **mech):
        from ..oracle.describe import val_str
        res.violate({'property': PROP, 'part': 'abstract arithmetic', 'operation': op, 'A': A[0] + ' = ' + str(A[1]), 'B': (B[0] + ' = ' + str(B[1])) if B else None,
                     'a': val_str(a), 'b': val_str(b) if b is not None else None, 'exact_result': val_str(r) if r is not None else None,
                     'result_format': str(R), 'problem': problem,
                     'mechanism': dict({'part': 'abstract_arith', 'op': op}, **mech)})

    def neg_zero_only(r, *operand_formats):
        """the result is -0 and no operand format has a -0"""
        return r is not None and r[0] == 'fin' and r[2] == 0 and r[1] and not any(f.has_neg_zero for f in operand_formats)

    for (x, y) in mine:
        if len(res.violations) >= 40:
            break
        A, B = fmts[x], fmts[y]
        ma, mb = mem(x), mem(y)
        try:
            ops = {'+': (A[1] + B[1], arith.add), '-': (A[1] - B[1], arith.sub), '*': (A[1] * B[1], arith.mul)}
            U = A[1] | B[1]
            le = A[1] <= B[1]
        except Exception as e:
            # e.g. the AssertionError of effective_prec for a bounded format with unbounded exponent range: no format is
            # computed, so nothing can be judged against it (counted; the analysis raising on a program is counted in part (a))
            res.count(f'operator_raised:{type(e).__name__}')
            continue
        for op, (R, fn) in ops.items():
            top = af_is_top(R)
            bad = None
            for a in ma:
                for b in mb:
                    r = ideal(fn(a, b))
                    res.evaluations += 1
                    if not top:
                        res.nontrivial += 1
                    if r is None:
                        continue
                    if r[0] == 'irr':
                        continue
                    if not af_member(R, r):
                        bad = (a, b, r)
                        break
                if bad:
                    break
            if bad:
                a, b, r = bad
                viol(op, A, B, a, b, r, R, 'the exact result of two members is outside the format of the abstract operation',
                     kind='neg_zero' if neg_zero_only(r, A[1], B[1]) else 'value', operands_lack_neg_zero=neg_zero_only(r, A[1], B[1]))
        # union contains both
        for a in ma + mb:
            res.evaluations += 1
            if not af_member(U, a):
                viol('|', A, B, a, None, a, U, 'a member of an operand is outside the union', kind='value')
                break
        # containment claim
        if le:
            for a in ma:
                res.evaluations += 1
                res.nontrivial += 1
                if not af_member(B[1], a):
                    viol('<=', A, B, a, None, a, B[1], 'A <= B holds but a member of A is outside B', kind='value')
                    break
        res.count('format_pairs')
    # unary operations and round_is_identity on every format
    ctxs = []
    for text in SMALL_CTXS:
        try:
            c = eval(text, {'fp': fp})
            ctxs.append((text, c, describe(c)))
        except Exception:
            pass
    for ix in range(i, len(fmts), n):
        A = fmts[ix]
        ma = mem(ix)
        for op, R, fn in (('neg', -A[1], arith.neg), ('abs', abs(A[1]), arith.fabs)):
            for a in ma:
                r = ideal(fn(a))
                res.evaluations += 1
                res.nontrivial += 0 if af_is_top(R) else 1
                if r is not None and not af_member(R, r):
                    viol(op, A, None, a, None, r, R, 'the exact result for a member is outside the format of the abstract operation',
                         kind='neg_zero' if neg_zero_only(r, A[1]) else 'value', operands_lack_neg_zero=neg_zero_only(r, A[1]))
                    break
        for text, c, fd in ctxs:
            try:
                ident = round_is_identity(A[1], c)
            except Exception as e:
                res.evaluations += 1
                viol('round_is_identity', A, None, ('nan',), None, None, text, f'raised {type(e).__name__}: {e}', kind='crash')
                continue
            res.count('identity_claims_true' if ident else 'identity_claims_false')
            if not ident or fd.real:
                continue
            for a in ma:
                res.evaluations += 1
                res.nontrivial += 1
                try:
                    exp = rnd.expected_round(fd, a)
                except Exception:
                    continue
                if exp.raises and not exp.values:
                    viol('round_is_identity', A, None, a, None, None, text, f'rounding reported an identity but {text} refuses the member ({exp.raises})', kind='identity')
                    break
                if a not in exp.values:
                    viol('round_is_identity', A, None, a, None, exp.values[0] if exp.values else None, text,
                         f'rounding under {text} reported an identity but changes the member', kind='identity')
                    break


# ---------------------------------------------------------------------------------------------
# (a) traced programs

NUMERIC_HEADER = '''import fpy2 as fp
from fpy2 import *

P3 = fp.MPFloatContext(3)
I8 = fp.FixedContext(True, 0, 8)
U4 = fp.FixedContext(False, 0, 4)
Q2 = fp.MPFixedContext(-3)
H8 = fp.IEEEContext(4, 8)
S3 = fp.MPSFloatContext(3, -4)

@fp.fpy
def dbl(a):
    return a + a

@fp.fpy
def step(a):
    return a + 1

@fp.fpy(ctx=fp.MPFloatContext(3))
def third(a):
    return a / 3

'''


class NumGen:
    """numeric programs: exact arithmetic under REAL, rounding blocks, accumulating loops, branches refined by comparisons / logb / isnan"""

    CTXS = ['P3', 'I8', 'U4', 'Q2', 'H8', 'S3', 'fp.REAL', 'fp.REAL', 'fp.REAL', 'fp.INTEGER', 'fp.FP16']

    def __init__(self, rng):
        self.rng = rng
        self.k = 0
        self.lines = []

    def fresh(self, p='v'):
        self.k += 1
        return f'{p}{self.k}'

    def expr(self, vars_, d):
        r = self.rng
        if d <= 0 or r.random() < 0.25:
            if vars_ and r.random() < 0.75:
                return r.choice(vars_)
            return r.choice(['0', '1', '2', '3', '0.5', '-1', '-0.0', '4', '0.25', '-2.5', '7'])
        op = r.choice(['+', '-', '*', '+', '*', 'neg', 'abs', 'round', 'min', 'max', 'ifexpr', 'fma', 'floor', 'div'])
        a = lambda: self.expr(vars_, d - 1)
        if r.random() < 0.18:
            # the other numeric builtins: every one has a transfer function in FormatInfer (or falls back to the context's format).
            # Powers are left out: under REAL in a loop they grow without bound and two shards of seed 1 ran past ten minutes
            x = r.choice(['sqrt', 'cbrt', 'fmod', 'remainder', 'mod', 'copysign', 'fdim', 'hypot', 'roundint', 'nearbyint', 'nan', 'inf',
                          'logb', 'round_at', 'cast', 'sum', 'len', 'exp', 'log', 'sin', 'atan2', 'const', 'fmin', 'signsel', 'suml'])
            ra = lambda: f'fp.round({a()})'
            if x in ('sqrt', 'cbrt', 'roundint', 'nearbyint', 'logb', 'exp', 'log', 'sin'):
                return f'fp.{x}({ra()})'
            if x in ('fmod', 'remainder', 'copysign', 'fdim', 'hypot', 'atan2'):
                return f'fp.{x}({ra()}, {ra()})'
            if x == 'fmin':
                return f'fp.{r.choice(["fmin", "fmax"])}({a()}, {a()})'
            if x == 'mod':
                return f'({ra()} % {ra()})'
            if x == 'powop':
                return f'({ra()} ** {r.choice(["2", "3", "0", "-1"])})'
            if x == 'pow':
                return f'fp.pow({ra()}, {r.choice(["2", "0.5", "-1", a()])})'
            if x == 'nan':
                return 'fp.nan()'
            if x == 'inf':
                return r.choice(['fp.inf()', '(-fp.inf())'])
            if x == 'round_at':
                return f'fp.round_at({a()}, {r.choice(["-1", "0", "1", "-2"])})'
            if x == 'cast':
                return f'fp.round_exact(fp.round({a()}))'
            if x == 'sum':
                return f'sum([{a()}, {a()}, {a()}])'
            if x == 'suml':
                return r.choice(['sum(xs)', 'max(xs)', 'min(xs)', 'xs[0]'])
            if x == 'len':
                return 'len(xs)'
            if x == 'const':
                return r.choice(['fp.const_pi()', 'fp.const_e()', 'fp.const_sqrt2()'])
            if x == 'signsel':
                return f'({a()} if fp.signbit({a()}) else {a()})'
        if op in '+-*':
            return f'({a()} {op} {a()})'
        if op == 'neg':
            return f'(-{a()})'
        if op == 'abs':
            return f'abs({a()})'
        if op == 'round':
            return f'fp.round({a()})'
        if op in ('min', 'max'):
            return f'{op}({a()}, {a()})'
        if op == 'ifexpr':
            return f'({a()} if {a()} {r.choice(["<", "<=", ">", "==", "!="])} {a()} else {a()})'
        if op == 'fma':
            return f'fp.fma({a()}, {a()}, {a()})'
        if op == 'floor':
            return f'fp.{r.choice(["floor", "ceil", "trunc"])}({a()})'
        return f'({a()} / {r.choice(["2", "4", "0.5", a()])})'

    def block(self, vars_, ind, depth, n):
        r = self.rng
        vars_ = list(vars_)
        for _ in range(n):
            kind = r.choice(['assign', 'assign', 'assign', 'with', 'if', 'for', 'while', 'refine', 'aug'] if depth > 0 else ['assign', 'assign', 'aug'])
            pad = '    ' * ind
            if kind == 'assign':
                v = r.choice(vars_) if vars_ and r.random() < 0.3 else self.fresh()
                self.lines.append(f'{pad}{v} = {self.expr(vars_, 2)}')
                if v not in vars_:
                    vars_.append(v)
            elif kind == 'aug' and vars_:
                self.lines.append(f'{pad}{r.choice(vars_)} {r.choice(["+=", "-=", "*="])} {self.expr(vars_, 1)}')
            elif kind == 'with':
                self.lines.append(f'{pad}with {r.choice(self.CTXS)}:')
                vars_ = self.block(vars_, ind + 1, depth - 1, r.randint(1, 3))
            elif kind == 'if':
                self.lines.append(f'{pad}if {self.expr(vars_, 1)} {r.choice(["<", "<=", ">", ">=", "==", "!="])} {self.expr(vars_, 1)}:')
                self.block(vars_, ind + 1, depth - 1, r.randint(1, 2))
                if r.random() < 0.5:
                    self.lines.append(f'{pad}else:')
                    self.block(vars_, ind + 1, depth - 1, r.randint(1, 2))
            elif kind == 'refine' and vars_:
                x = r.choice(vars_)
                form = r.random()
                if form < 0.4:
                    self.lines.append(f'{pad}if fp.isnan({x}) or fp.isinf({x}):')
                    self.lines.append(f'{pad}    {x} = {r.choice(["0", "1", "-0.0"])}')
                    self.lines.append(f'{pad}elif {x} == 0:')
                    self.lines.append(f'{pad}    {x} = {r.choice(["1", "0.5"])}')
                    self.lines.append(f'{pad}else:')
                    w = self.fresh()
                    self.lines.append(f'{pad}    {w} = fp.logb({x})')
                    self.lines.append(f'{pad}    if {w} < {r.choice(["0", "2", "-1"])}:')
                    self.lines.append(f'{pad}        {x} = {x} * {r.choice(["2", "4"])}')
                elif form < 0.65:
                    # one-armed clamp / flush: the path that fails the test keeps the old value
                    c = r.choice(['0', '1', '-1', '2', '4', '0.5', '-2'])
                    self.lines.append(f'{pad}if {x} {r.choice(["<", "<=", ">", ">="])} {c}:')
                    self.lines.append(f'{pad}    {x} = {r.choice(["0", "1", c, "-0.0", self.expr([x], 1)])}')
                else:
                    c = r.choice(['0', '1', '-1', '2', '0.5'])
                    self.lines.append(f'{pad}if {x} {r.choice(["<", "<=", ">", ">="])} {c}:')
                    w = self.fresh()
                    self.lines.append(f'{pad}    {w} = {self.expr([x], 2)}')
                    self.lines.append(f'{pad}else:')
                    self.lines.append(f'{pad}    {x} = {self.expr([x], 1)}')
            elif kind == 'for':
                i = self.fresh('i')
                form = r.random()
                if form < 0.5:
                    self.lines.append(f'{pad}for {i} in range({r.choice([1, 2, 3, 4])}):')
                elif form < 0.8:
                    self.lines.append(f'{pad}for {i} in xs:')
                else:
                    self.lines.append(f'{pad}for {i} in range(len(xs)):')
                self.block(vars_ + [i], ind + 1, depth - 1, r.randint(1, 2))
            elif kind == 'while':
                k = self.fresh('k')
                self.lines.append(f'{pad}{k} = 0')
                self.lines.append(f'{pad}while {k} < {r.choice([1, 2, 3, 5])}:')
                self.block(vars_, ind + 1, depth - 1, r.randint(1, 2))
                self.lines.append(f'{pad}    with fp.INTEGER:')
                self.lines.append(f'{pad}        {k} = {k} + 1')
                vars_.append(k)
        return vars_

    def program(self):
        self.lines = [NUMERIC_HEADER, '@fp.fpy', 'def f(x, y, xs):']
        vars_ = self.block(['x', 'y'], 1, 3, self.rng.randint(3, 7))
        ret = self.rng.choice(vars_) if self.rng.random() < 0.6 else self.expr(vars_, 2)
        self.lines.append(f'    return {ret}')
        return '\n'.join(self.lines) + '\n'


PINS = [
    # (caller context text, argument format context text): arguments are enumerated from the members of the latter
    ('fp.REAL', 'fp.FixedContext(True, 0, 4)'), ('fp.REAL', 'fp.MPSFloatContext(3, -3)'), ('fp.REAL', 'fp.IEEEContext(3, 6)'),
    ('fp.IEEEContext(4, 8)', 'fp.IEEEContext(4, 8)'), ('fp.MPFloatContext(4)', 'fp.FixedContext(False, 0, 3)'), ('fp.FixedContext(True, -2, 8)', 'fp.FixedContext(True, -2, 8)'),
    ('fp.REAL', 'fp.MPFixedContext(-2, enable_neg_zero=False)'), ('fp.FP16', 'fp.IEEEContext(3, 6)'), ('fp.MPFixedContext(-4)', 'fp.MPSFloatContext(2, -2)'),
    ('fp.REAL', 'fp.IEEEContext(2, 5)'),
]


class FormatChecker:
    """observer for the tracing compiler"""

    def __init__(self, fa, fp, res, source, pin):
        self.fa = fa
        self.fp = fp
        self.res = res
        self.source = source
        self.pin = pin
        self.found = []
        self.judged = 0
        self.nt = set()
        self.args_repr = None
        self.seen = set()
        self.dirty = False

    def on_enter(self, ast, vals):
        self.dirty = False
        self.last = {}          # id(node) -> value it last evaluated to in this run
        self.births = {}        # id(value) -> (value, op): a -0 produced by a product / negation none of whose operands was -0

    def on_bind(self, stmt, v):
        pass

    def on_iter_bind(self, stmt, v):
        pass

    def has_neg_zero(self, b):
        """whether a scalar bound contains -0 (None: unknown)"""
        from fpy2.analysis.format_infer import SetFormat, AbstractFormat
        from fpy2.analysis.format_infer.analysis import NegZero
        from fpy2.number import Float
        from fpy2.number.context.format import Format
        if isinstance(b, SetFormat):
            return any(isinstance(m, NegZero) for m in b.values)
        if isinstance(b, AbstractFormat):
            return bool(b.has_neg_zero)
        if isinstance(b, Format):
            try:
                return bool(b.representable_in(Float(s=True, c=0, exp=0)))
            except Exception:
                return None
        return None

    def operands_lack_neg_zero(self, e):
        ops = [getattr(e, a) for a in ('arg', 'first', 'second') if hasattr(e, a)]
        flags = [self.has_neg_zero(self.fa.by_expr.get(o)) for o in ops]
        return bool(flags) and all(f is False for f in flags)

    @staticmethod
    def _is_neg_zero(v):
        return getattr(v, 's', False) is True and not getattr(v, 'isnan', False) and not getattr(v, 'isinf', False) and getattr(v, 'c', 1) == 0

    def on_expr(self, e, v):
        from fpy2.number.context.real import RealFormat
        # provenance of negative zeros: the sign rule of an (exact or rounded) product / negation makes a -0 out of operands
        # that are not -0 (F46: the abstract product / negation has a -0 only if an operand format has one).  The value object
        # keeps its identity through assignments, phis and variable reads, so a later witness can name where its -0 was born
        # even when the format table no longer shows it (by_expr keeps the view of the last analysed loop iteration only).
        self.last[id(e)] = v
        if self._is_neg_zero(v):
            cls = type(e).__name__
            if cls in ('Mul', 'Neg'):
                ops = [getattr(e, a) for a in ('arg', 'first', 'second') if hasattr(e, a)]
                vals = [self.last.get(id(o), self) for o in ops]
                if ops and all(x is not self and not self._is_neg_zero(x) for x in vals):
                    self.births[id(v)] = (v, cls)
        if self.dirty:
            # a value outside its format was already observed in this run: everything downstream is a consequence
            return
        b = self.fa.by_expr.get(e)
        if b is None:
            return
        r = bound_member(b, v, self.fp)
        if r is None:
            return
        self.judged += 1
        if not isinstance(b, RealFormat):
            self.nt.add(id(e))
        if r is False:
            self.dirty = True
        if r is False and id(e) not in self.seen:
            self.seen.add(id(e))
            from ..gen.run import norm, show
            try:
                text = e.format()
            except Exception:
                text = repr(e)[:100]
            nv = norm(v)
            negz = nv[0] == 'n' and len(nv) == 3 and nv[2] == 0 and nv[1] is True
            born = self.births.get(id(v)) if negz else None
            self.found.append({'property': PROP, 'part': 'trace', 'problem': 'a run-time value is outside the format inferred for its expression',
                               'expression': text[:200], 'value': show(nv), 'inferred': str(b)[:300], 'args': self.args_repr, 'pinned': self.pin,
                               'source': self.source,
                               'mechanism': {'part': 'trace', 'kind': 'neg_zero' if negz else 'value', 'node': type(e).__name__,
                                             'op': born[1] if born else type(e).__name__,
                                             'operands_lack_neg_zero': bool(negz and (born is not None or self.operands_lack_neg_zero(e))),
                                             'neg_zero_born_at': born[1] if born else None,
                                             # F76: the sum of a one-element list is that element, unrounded
                                             'sum_of_one_element': bool(type(e).__name__ == 'Sum' and isinstance(self.last.get(id(getattr(e, 'arg', None))), list)
                                                                        and len(self.last[id(e.arg)]) == 1)}})


def format_members(ctx, fp, cap=40):
    """members of a small context's format, by rounding a grid (values are then representable by construction)"""
    from fpy2.number import Float, RealFloat
    out = {}
    for k in range(-64, 65):
        for sh in (-3, -1, 0, 2):
            v = Fraction(k) * Fraction(2) ** sh
            try:
                r = ctx.round(v)
            except Exception:
                continue
            if r.isnan or r.isinf:
                continue
            out[(bool(r.s), r.as_rational())] = r
    vals = list(out.values())
    for s in (Float(isnan=True), Float(isinf=True), Float(isinf=True, s=True), Float(s=True, c=0, exp=0)):
        try:
            if ctx.format().representable_in(s):
                vals.append(s)
        except Exception:
            pass
    return vals


DIRECTED = [
    # one callee reached from several call sites (and from a loop the analysis walks several times) with different argument
    # formats under the same context: each instantiation has its own result format
    'with I8:\n        p = fp.round(x)\n    r = dbl(p)\n    s = dbl(y * 1000.5)\n    acc = p\n    for i in range(4):\n        acc = step(acc)\n    t = third(p)\n    u = third(s)\n    return (r, s, acc, t, u)',
    'with U4:\n        p = fp.round(abs(x))\n    with fp.REAL:\n        a = dbl(p)\n        b = dbl(a * 0.25)\n        c = step(b)\n        k = 0\n        while k < 3:\n            c = dbl(c)\n            with fp.INTEGER:\n                k = k + 1\n    return (a, b, c)',
    # contexts that are only known at run time (computed from the length of a list, chosen by a branch): nothing may be assumed of
    # what is rounded under them beyond what every context guarantees
    'with fp.MPFloatContext(len(xs) + 2):\n        a = x / 3 + y\n        b = a * a\n    with (P3 if x > 0 else H8):\n        c = y / 3\n        d = c + x\n    return (a, b, c, d)',
    'k = 2\n    for e in xs:\n        k = k + 1\n    with fp.MPFixedContext(-k):\n        a = x / 3\n        b = a + y / 7\n    return (a, b, a * b)',
    # thorough seed 0: a -0 born of (+0) * (negative) in the first analysed iteration of a loop of known length reaches a variable
    # read whose format was recorded in the last iteration (F46 by provenance)
    'for i1 in range(len(xs)):\n        v2 = ((-2.5 if i1 < y else y) * (x * i1))\n    with fp.FP16:\n        v3 = 7\n        if v3 != (y * v3):\n            k4 = 0\n            while k4 < 3:\n                y *= 0\n                with fp.INTEGER:\n                    k4 = k4 + 1\n        else:\n            with U4:\n                v3 *= x\n                x += (y * x)\n        v5 = fp.round(fp.round(v3))\n    for i6 in range(2):\n        x += fp.fma(2, i6, i6)\n    x = fp.trunc(abs(v3))\n    for i7 in range(2):\n        with Q2:\n            if (v5 + -1) == -2.5:\n                y += (2 + y)\n            else:\n                v3 += min(y, 0.5)\n                v5 *= (v3 + -1)\n    return min((v3 + y), v3)',
    'return (min(4, y), max(-7, x), min(x, y, 2), max(x, 2), min(x, -0.0), max(y, 0))',
    'with I8:\n        a = abs(x)\n        b = x * 3\n        c = -x\n    with U4:\n        d = x + y\n    return (a, b, c, d)',
    'a = x * -0.0\n    b = x * 0\n    c = (x - x) * y\n    return (a, b, c, -a, abs(c))',
    'a = x + 1\n    b = (x * y) + x\n    c = fp.fma(x, y, 1)\n    d = x / 4\n    return (a, b, c, d, a - b)',
    'with fp.REAL:\n        a = x + y\n        b = x * y\n        c = -x\n        d = abs(y)\n        e = a * b - c\n    return (a, b, c, d, e, fp.round(e))',
    's = 0\n    for e in xs:\n        s = s + e\n    t = x\n    for i in range(3):\n        t = t * 2 + i\n    k = 0\n    while k < 3:\n        with fp.REAL:\n            y = y + y\n        with fp.INTEGER:\n            k = k + 1\n    return (s, t, y)',
    'if fp.isnan(x) or fp.isinf(x):\n        r = 0\n    elif x == 0:\n        r = x\n    else:\n        with fp.REAL:\n            e = fp.logb(x)\n        r = e\n        if e < 0:\n            r = x * 4\n    if y > 1:\n        q = y - 1\n    else:\n        q = y\n    return (r, q)',
    'with I8:\n        a = y * 0.25\n        b = x / 4 + 0.5\n    with Q2:\n        c = x * 0.3\n        d = y / 16\n    return (a, b, c, d)',
    'a = x\n    if a < 4:\n        a = 0\n    b = y\n    if b >= -2:\n        b = 1\n    c = x\n    if c <= 0:\n        c = c * 2\n    return (a, b, c, a + b)',
    'with Q2:\n        a = fp.round(x)\n        with P3:\n            b = a * y\n        c = a + b\n    with S3:\n        d = fp.floor(c) - fp.ceil(x)\n    return (a, b, c, d, (a if a < b else d))',
]


def directed_sources():
    return [NUMERIC_HEADER + '@fp.fpy\ndef f(x, y, xs):\n    ' + b + '\n' for b in DIRECTED]


def trace_monitor(res: Result, fp, rng, i, n, quick):
    from fpy2.analysis.format_infer import FormatInfer, FunctionFormat, ListFormat
    from ..gen import prog as genprog, run as genrun
    from ..monitors.trace import run_traced
    nprog = (480 if quick else 9000) // n
    errors = {}
    dsrcs = directed_sources()
    with genrun.Scratch(prefix='vf-c14-') as work:
        for pi in range(-len(dsrcs), nprog):
            if len(res.violations) >= 40:
                break
            if pi < 0:
                # directed programs: spread over the shards, every pinned signature, all members as arguments
                if (pi + len(dsrcs)) % n != i:
                    continue
                src = dsrcs[pi + len(dsrcs)]
            else:
                src = NumGen(rng).program()
            try:
                mod = genprog.load_module(src, work, 'c14')
            except Exception as e:
                res.count(f'rejected:{type(e).__name__}')
                continue
            res.count('programs')
            shown = src[src.find('@fp.fpy'):]
            for (ctext, atext) in (PINS if pi < 0 else rng.sample(PINS, 3)):
                cctx = eval(ctext, {'fp': fp})
                actx = eval(atext, {'fp': fp})
                afmt = actx.format()
                try:
                    out = genrun.guarded(lambda: FormatInfer.analyze(mod.f.ast, fn_fmt=FunctionFormat(cctx, (afmt, afmt, ListFormat(afmt)), None)), timeout=10.0)
                    if out[0] == 'timeout':
                        res.count('analysis_timeout')
                        continue
                    if out[0] == 'exc':
                        raise out[1]
                    fa = out[1]
                except Exception as e:
                    key = f'{type(e).__name__}: {str(e)[:60]}'
                    errors[key] = errors.get(key, 0) + 1
                    res.count('analysis_raised')
                    continue
                res.count('analyses')
                members = format_members(actx, fp)
                chk = FormatChecker(fa, fp, res, shown, f'ctx={ctext} args in {atext}')
                ninputs = 10 if quick else 16
                if pi < 0:
                    sub = members if len(members) <= 14 else rng.sample(members, 10) + [m for m in members if m.isnan or m.isinf or m.is_zero()]
                    plan = [[a, b, [a, b]] for a in sub for b in sub]
                else:
                    plan = [[rng.choice(members), rng.choice(members), [rng.choice(members) for _ in range(rng.choice([0, 1, 2, 3]))]] for _ in range(ninputs)]
                for args in plan:
                    chk.args_repr = repr([str(a) for a in args[:2]] + [[str(a) for a in args[2]]])
                    out = genrun.guarded(lambda: run_traced(mod.f, args, cctx, chk), timeout=8.0)
                    if out[0] == 'ok':
                        res.count('run_returned')
                        r = None if chk.dirty else bound_member(fa.fn_fmt.ret_fmt, to_internal(out[1], fp), fp)
                        if r is not None:
                            chk.judged += 1
                            if r is False:
                                from ..gen.run import norm, show
                                nv = norm(out[1])
                                negz = nv[0] == 'n' and len(nv) == 3 and nv[2] == 0 and nv[1] is True
                                chk.found.append({'property': PROP, 'part': 'trace', 'problem': 'the returned value is outside the inferred return format',
                                                  'value': show(nv), 'inferred': str(fa.fn_fmt.ret_fmt)[:300], 'args': chk.args_repr, 'pinned': chk.pin, 'source': shown,
                                                  'mechanism': {'part': 'trace', 'kind': 'neg_zero' if negz else 'value', 'node': 'return'}})
                    elif out[0] == 'timeout':
                        res.count('run_timeout')
                    else:
                        res.count('run_raised')
                    if chk.found:
                        break
                res.evaluations += chk.judged
                res.nontrivial += len(chk.nt)
                for w in chk.found[:2]:
                    res.violate(w)
            if pi < 1:
                res.sample({'program': shown[:700]})
            genprog.unload(mod)
    res.extra['analysis_errors'] = errors


def to_internal(v, fp):
    return v


def shard(i: int, n: int, tier: str, seed: int) -> Result:
    import fpy2 as fp
    res = Result(PROP, tier, seed)
    rng = random.Random(seed * 31337 + i)
    quick = tier == 'quick'
    arith_monitor(res, fp, rng, i, n, quick)
    select_monitor(res, fp, rng, i, n, quick)
    trace_monitor(res, fp, rng, i, n, quick)
    return res


def main(tier: str) -> int:
    s = get_seed()
    res = Result(PROP, tier, s, rule=RULE)
    res.assumptions = ['membership in an AbstractFormat / SetFormat is decided by predicates written here (quantum, significant bits, bounds, four special flags); '
                       'membership in a concrete number Format by the number library\'s representable_in (validated by C01 / C16)',
                       'exact results follow IEEE 754 zero-sign rules (the product of a negative value and +0 is -0; -(+0) is -0), as the interpreter computes them under REAL',
                       'arguments of traced runs are members of the pinned argument formats by construction']
    run_shards('vf.checks.c14', 16, tier, s, timeout=1500 if tier == 'quick' else 3400, res=res)
    c = res.counters
    if not res.violations:
        if c.get('format_pairs', 0) < 500 or c.get('analyses', 0) < 200 or c.get('identity_claims_true', 0) < 50:
            res.inconclusive.append(f"too little observed: {c.get('format_pairs', 0)} format pairs, {c.get('analyses', 0)} analyses, {c.get('identity_claims_true', 0)} identity claims")
    return finish(res)


if __name__ == '__main__':
    shard_main(shard)
