"""
C19 -- sites, indices and cursors name exactly what they say.

Generated programs in which every statement carries a unique marker (a marker
variable `mk_K_`, a loop variable `lp_K_`, a counter `wh_K_` or a literal
1000+K) are listed, aimed and rewritten by every aimable strategy and two user
`Rewrite`s; the monitors observe `sites` / `refusals`, `strategy(f, where=...)`,
the reported `EditLog`s and `Function.forward(cursor).resolve()`:

  A  accounting: every syntactic candidate (my own definition) is a site or a
     refusal, never both; a listing has no duplicates
  B  where=j == where=sites[j]; the reported edits touch exactly the j-th site;
     every statement outside it is textually unchanged (and forwards to itself)
  C  where in {-1, k, k+3}: rejected
  D  where=None: the reported edits are exactly the outermost listed sites
  E  histories: cursors (statement / region / expression) taken on the first
     program and forwarded across 1..4 strategy applications either raise
     TransformReferenceError or resolve to statements that carry the original
     statement's own marker and no marker foreign to it
"""
from __future__ import annotations

import random
import re
import traceback
from collections import Counter

from ..common import Result, finish, run_shards, seed as get_seed, shard_main

PROP = 'C19'
RULE = ('one evaluation = one monitored observation (a listing accounted, an aimed rewrite compared, a rejected index, a forwarded cursor judged); '
        'non-trivial = aimed rewrites that changed the program plus forwarded cursors that resolved across at least one edit')

HEADER = '''import fpy2 as fp
from fpy2 import *
from fpy2.rewrite import Rewrite, find_all

@fp.fpy
def h1(a):
    t = a * a
    return t + 1

@fp.fpy
def h2(a):
    return a - 1

@fp.fpy
def h3(a):
    if a > 0:
        return a
    return -a

@fp.pattern
def bump_l(a):
    y = a + 1

@fp.pattern
def bump_r(a):
    y = a + 2

@fp.pattern
def fma_l(a, b, c):
    a * b + c

@fp.pattern
def fma_r(a, b, c):
    fp.fma(a, b, c)

bump = Rewrite(bump_l, bump_r)
fma = Rewrite(fma_l, fma_r)

C1 = fp.MPFixedContext(-3, enable_neg_zero=False)
C2 = fp.IEEEContext(4, 8)

'''

ROUND_CTXS = ['fp.FP16', 'fp.FP32', 'fp.FixedContext(True, -4, 16)', 'C1', 'C2', 'fp.REAL', 'fp.MPFixedContext(-3)', 'fp.MPFloatContext(5)',
              'fp.SMFixedContext(-2, 8)', 'fp.FixedContext(False, 2, 8)', 'fp.MPSFloatContext(4, -6)',
              'fp.FixedContext(True, -4, 16, fp.RM.RTZ, fp.OV.SATURATE)', 'fp.FP16', 'fp.FP16']

MARK = re.compile(r'\b(?:mk|lp|wh)_\d+_|\b1\d\d\d\b')


class Gen:
    def __init__(self, rng: random.Random, max_depth: int, hostile: bool):
        self.rng = rng
        self.k = 0
        self.max_depth = max_depth
        self.hostile = hostile

    def fresh(self) -> int:
        self.k += 1
        return self.k

    def stmt(self, depth: int, ind: str) -> list[str]:
        r = self.rng
        kinds = ['bump', 'fma', 'plain', 'call', 'round', 'round', 'round', 'idxcall']
        if depth < self.max_depth:
            kinds += ['for', 'for', 'while', 'if', 'ctx', 'for']
        kind = r.choice(kinds)
        k = self.fresh()
        if kind == 'bump':
            return [f'{ind}mk_{k}_ = {r.choice(["x", "y"])} + 1']
        if kind == 'fma':
            return [f'{ind}mk_{k}_ = x * y + {r.choice(["x", "y", "(x * x + y)"])}']
        if kind == 'plain':
            return [f'{ind}mk_{k}_ = x - y']
        if kind == 'call':
            form = r.choice(['h1(x) + h2(y)', 'h1(h2(x))', 'h3(x)', 'h1(x)', '(h1(x) if x > 0 else h2(y))', 'h2(x) * y + h1(y)'])
            return [f'{ind}mk_{k}_ = {form}']
        if kind == 'idxcall':
            # an indexed assignment with sites in the subscript and in the value
            m = 1000 + k
            form = r.choice([f'xs[h2(1)] = h1(x) + {m}', f'xs[h2(h2(2))] = h2(y) * {m} + h1(x)', f'xs[0] = h1(h2(x)) + {m}', f'xs[h2(1)] = x * y + {m}'])
            return [f'{ind}{form}']
        if kind == 'round':
            ctx = r.choice(ROUND_CTXS)
            if r.random() < 0.12:
                ctx += f' as cc_{k}'
            lines = [f'{ind}with {ctx}:']
            n = 1 if r.random() < 0.75 else 2
            for t in range(n):
                kk = k if t == 0 else self.fresh()
                op = 'fp.round' if r.random() < 0.8 else 'fp.cast'
                arg = r.choice(['x', 'y']) if r.random() < 0.9 else 'x + 1'
                lines.append(f'{ind}    mk_{kk}_ = {op}({arg})')
            return lines
        if kind == 'for':
            if r.random() < 0.6:
                head = f'{ind}for lp_{k}_ in range({r.choice([2, 3, 4])}):'
            elif r.random() < 0.7:
                head = f'{ind}for lp_{k}_ in xs:'
            else:
                head = f'{ind}for lp_{k}_ in range(n):'
            return [head] + self.block(depth + 1, ind + '    ', r.choice([1, 1, 2, 3]))
        if kind == 'while':
            m = 1000 + k
            if r.random() < 0.8:
                cond = f'(wh_{k}_ + {m}) < {m} + 2'
            else:
                cond = f'(h2(wh_{k}_) + {m}) < {m} + 1'
            lines = [f'{ind}wh_{k}_ = 0', f'{ind}while {cond}:']
            lines += self.block(depth + 1, ind + '    ', r.choice([1, 2]))
            lines.append(f'{ind}    wh_{k}_ = wh_{k}_ + 1')
            return lines
        if kind == 'if':
            m = 1000 + k
            lines = [f'{ind}if x > {m}:'] + self.block(depth + 1, ind + '    ', r.choice([1, 2]))
            if r.random() < 0.4:
                lines += [f'{ind}else:'] + self.block(depth + 1, ind + '    ', r.choice([1, 2]))
            return lines
        if kind == 'ctx':
            m = 1000 + k
            return [f'{ind}with fp.MPFloatContext({m}):'] + self.block(depth + 1, ind + '    ', r.choice([1, 2, 3]))
        raise AssertionError(kind)

    def block(self, depth: int, ind: str, n: int) -> list[str]:
        out = []
        for _ in range(n):
            out += self.stmt(depth, ind)
        return out

    def program(self, nstmts: int) -> str:
        body = self.block(1, '    ', nstmts)
        # 2000 is the first literal that is not a marker; keep counters below that
        assert self.k < 990
        return HEADER + '@fp.fpy(ctx=fp.REAL)\ndef f(x, y, xs, n):\n' + '\n'.join(body) + '\n    return x\n'


# ---------------------------------------------------------------------------------------------
# path helpers, written against the documented grammar only (parent links, field, index)

def ptuple(p) -> tuple:
    """a path as a tuple of steps, root first"""
    out = []
    while True:
        cls = type(p).__name__
        if cls == 'FuncBody':
            break
        if cls == 'StmtPath':
            out.append(('#', p.index))
        elif cls == 'SubBlock':
            out.append(('.', p.field))
        elif cls == 'ExprPath':
            out.append(('e', p.field, p.index))
        else:
            raise TypeError(cls)
        p = p.parent
    return tuple(reversed(out))


def stmt_of(t: tuple) -> tuple:
    """the statement an expression path belongs to"""
    i = 0
    while i < len(t) and t[i][0] != 'e':
        i += 1
    return t[:i]


def is_prefix(a: tuple, b: tuple) -> bool:
    return len(a) <= len(b) and b[:len(a)] == a


def markers(text: str) -> set[str]:
    return set(MARK.findall(text))


def markers_of_temporaries(resolved: str, f, g) -> set[str]:
    """markers carried by the temporaries a rewritten statement reads: a rewrite may bind an operand of the
    statement to a fresh variable ahead of it (e.g. to keep its evaluation order), and the operand's literal goes with it;
    only names that the original program does not have count"""
    ident = re.compile(r'\b[A-Za-z_]\w*\b')
    old = set(ident.findall(f.format()))
    lines = g.format().splitlines()
    out: set[str] = set()
    seen: set[str] = set()
    todo = set(ident.findall(resolved)) - old
    while todo and len(seen) < 200:
        nm = todo.pop()
        seen.add(nm)
        for ln in lines:
            if re.match(rf'\s*{re.escape(nm)} = ', ln):
                out |= markers(ln)
                todo |= set(ident.findall(ln)) - old - seen
    return out


def own_marker(stmt) -> str | None:
    """the marker introduced by the statement's own header line"""
    head = stmt.format().splitlines()[0]
    cls = type(stmt).__name__
    if cls == 'ContextStmt':
        m = MARK.findall(head)
        if m:
            return m[0]
        # a rounding block: the first target
        lines = stmt.format().splitlines()
        m = MARK.findall(lines[1]) if len(lines) > 1 else []
        return m[0] if m else None
    if cls == 'WhileStmt':
        m = [x for x in MARK.findall(head) if x[0] == '1']
        return m[0] if m else None
    m = MARK.findall(head)
    return m[0] if m else None


class View:
    """all statements / expressions of one program version, by path tuple"""

    def __init__(self, func):
        from fpy2.transform.path import walk_stmts
        self.func = func
        self.stmts = {}
        self.order = []
        for p, s in walk_stmts(func.ast):
            t = ptuple(p)
            self.stmts[t] = (p, s, s.format())
            self.order.append(t)
        self.texts = Counter(v[2] for v in self.stmts.values())


def candidate_defs(view: View):
    """my own syntactic candidates: kind -> set of statement path tuples / (expression) statement tuples"""
    from fpy2.transform.path import walk_exprs
    cands = {'round_block': set(), 'for': set(), 'while': set(), 'call': set()}
    for p, e in walk_exprs(view.func.ast):
        if type(e).__name__ == 'Call' and e.format().startswith(('h1(', 'h2(', 'h3(')):
            cands['call'].add(ptuple(p))
    for t, (p, s, text) in view.stmts.items():
        cls = type(s).__name__
        if cls == 'ForStmt':
            cands['for'].add(t)
        elif cls == 'WhileStmt':
            cands['while'].add(t)
        elif cls == 'ContextStmt':
            lines = text.splitlines()
            if ' as ' in lines[0]:
                continue
            body = [ln.strip() for ln in lines[1:]]
            if body and all(re.fullmatch(r'mk_\d+_ = fp\.round\([xy]\)', ln) for ln in body) and len(body) == len(s.body.stmts):
                cands['round_block'].add(t)
    return cands


def strategies(mod, rng):
    """(name, callable(f, where) , lister(f) -> cursors, refuser(f) | None, candidate kind, expr_sited)"""
    import fpy2 as fp
    import fpy2.strategies as S
    from fpy2.rewrite import find_all
    from fpy2.transform import ForUnrollStrategy, SplitLoopStrategy
    out = []

    # `sites` / `refusals` take the parameters that decide the answer (sites.py): ctx, funcs, factor / times, strategy
    LIST_KW = ('ctx', 'funcs', 'factor', 'times', 'strategy')

    def std(name, strat, kw, kind, expr=False):
        lkw = {a: b for a, b in kw.items() if a in LIST_KW and not (strat is S.unroll_while)}
        out.append(dict(name=name, apply=lambda f, where, strat=strat, kw=kw: strat(f, where=where, **kw),
                        sites=lambda f, strat=strat, kw=lkw: S.sites(strat, f, **kw),
                        refusals=(lambda f, strat=strat, kw=lkw: S.refusals(strat, f, **kw)), kind=kind, expr=expr))
    std('unfold_special', S.unfold_special, {}, 'round_block')
    std('unfold_neg_zero', S.unfold_neg_zero, {}, 'round_block')
    std('unfold_overflow', S.unfold_overflow, {}, 'round_block')
    std('unfold_overflow[early]', S.unfold_overflow, {'early_check': True}, 'round_block')
    std('float_to_fixed', S.float_to_fixed, {}, 'round_block')
    std('rescale_fixed', S.rescale_fixed, {}, 'round_block')
    std('insert_round[FP64]', S.insert_round, {'ctx': fp.FP64}, None, None)
    std('insert_round[FP16]', S.insert_round, {'ctx': fp.FP16}, None, None)
    std('split[2]', S.split, {'factor': 2}, 'for')
    std('split[3,STRICT]', S.split, {'factor': 3, 'strategy': SplitLoopStrategy.STRICT}, 'for')
    std('unroll_for[1]', S.unroll_for, {'times': 1}, 'for')
    std('unroll_for[2,STRICT]', S.unroll_for, {'times': 2, 'strategy': ForUnrollStrategy.STRICT}, 'for')
    std('unroll_while[1]', S.unroll_while, {'times': 1}, 'while')
    std('unroll_while[2]', S.unroll_while, {'times': 2}, 'while')
    std('inline', S.inline, {}, 'call', True)
    std('inline[h1,flat]', S.inline, {'funcs': [mod.h1], 'recursive': False}, None, True)
    out.append(dict(name='Rewrite[bump]', apply=lambda f, where: mod.bump.apply(f, where), sites=lambda f: find_all(mod.bump_l, f),
                    refusals=None, kind=None, expr=False))
    out.append(dict(name='Rewrite[fma]', apply=lambda f, where: mod.fma.apply(f, where), sites=lambda f: find_all(mod.fma_l, f),
                    refusals=None, kind=None, expr=True))
    return out


def cursor_stmt_tuple(c) -> tuple:
    """the statement path (tuple) a site cursor sits in"""
    cls = type(c).__name__
    if cls == 'StmtCursor':
        return ptuple(c.path)
    if cls == 'ExprCursor':
        return stmt_of(ptuple(c.path))
    if cls == 'BlockCursor':
        return ptuple(c.block_path) + (('#', c.span.start),)
    raise TypeError(cls)


def cursor_stmt_tuples(c) -> list[tuple]:
    if type(c).__name__ == 'BlockCursor':
        base = ptuple(c.block_path)
        return [base + (('#', i),) for i in c.span]
    return [cursor_stmt_tuple(c)]


def touched(log) -> set[tuple]:
    out = set()
    for e in log.edits:
        base = ptuple(e.block_path)
        for i in e.span:
            out.add(base + (('#', i),))
        if e.removed == 0:
            out.add(base + (('+', e.index),))
    for p in log.exprs_rewritten:
        out.add(ptuple(p))
    return out


REJECT_OK = ('TransformReferenceError', 'TransformDeclined', 'TransformError', 'ValueError', 'IndexError', 'TypeError')


class Monitor:
    def __init__(self, res: Result, source: str):
        self.res = res
        self.source = source

    def violate(self, kind: str, strategy: str, problem: str, **more):
        w = {'property': PROP, 'strategy': strategy, 'problem': problem, 'source': self.source[self.source.find('@fp.fpy(ctx=fp.REAL)'):],
             'mechanism': {'kind': kind, 'strategy': strategy.split('[')[0]}}
        w.update(more)
        self.res.violate(w)


def resolved_text(cur) -> str:
    r = cur.resolve()
    if isinstance(r, list):
        return '\n'.join(s.format() for s in r)
    return r.format()


def check_unchanged(mon: Monitor, st_name: str, f, g, view: View, tch: set[tuple], what: str):
    """statements of f outside every reported edit are unchanged in g, and forward to themselves"""
    from fpy2.strategies import StmtCursor, TransformReferenceError
    gview = View(g)
    res = mon.res
    for t in view.order:
        p, s, text = view.stmts[t]
        related = any(is_prefix(x, t) or is_prefix(t, x) for x in tch if x and x[-1][0] != '+')
        # an insertion (removed=0) touches only its block's later indices, which forwarding handles; text stays
        if related:
            continue
        res.evaluations += 1
        if gview.texts.get(text, 0) != 1:
            mon.violate('untouched_changed', st_name, f'{what}: a statement outside every reported edit does not survive unchanged (found {gview.texts.get(text, 0)} times)',
                        statement=text, edits=repr(sorted(tch)), result=g.format())
            return False
        try:
            img = g.forward(StmtCursor(f.ast, p))
        except TransformReferenceError:
            res.count('forward_refused_untouched')
            continue
        if resolved_text(img) != text:
            mon.violate('forward_wrong_statement', st_name, f'{what}: an untouched statement forwards to a different statement',
                        statement=text, resolved=resolved_text(img), edits=repr(sorted(tch)), result=g.format())
            return False
    return True


def run_program(res: Result, rng: random.Random, mod, source: str, quick: bool):
    from fpy2.strategies import (StmtCursor, BlockCursor, ExprCursor, TransformReferenceError, TransformDeclined)
    import fpy2.strategies as S
    from fpy2.transform.path import walk_exprs
    f = mod.f
    mon = Monitor(res, source)
    view = View(f)
    cands = candidate_defs(view)
    strats = strategies(mod, rng)
    listings = {}
    for st in strats:
        name = st['name']
        # ---- A: accounting -------------------------------------------------------------------
        try:
            sites = st['sites'](f)
            refs = st['refusals'](f) if st['refusals'] else []
        except Exception as e:
            res.evaluations += 1
            mon.violate('listing_crash', name, f'listing raised {type(e).__name__}: {str(e)[:200]}', traceback=''.join(traceback.format_exception(e))[-1200:],
                        exception=type(e).__name__)
            mon.res.violations and mon.res.violations[-1]['mechanism'].update({'exception': type(e).__name__})
            continue
        listings[name] = sites
        res.evaluations += 1
        res.count('sites', len(sites))
        res.count('refusals', len(refs))
        site_keys = [ptuple(c.path) if hasattr(c, 'path') else cursor_stmt_tuple(c) for c in sites]
        ref_keys = [ptuple(c.path) if hasattr(c, 'path') else cursor_stmt_tuple(c) for c, _ in refs]
        if len(set(site_keys)) != len(site_keys):
            mon.violate('duplicate_site', name, 'a listing names one site twice', sites=[str(c) for c in sites])
        if set(site_keys) & set(ref_keys):
            mon.violate('site_and_refusal', name, 'a point is both a site and a refusal', sites=[str(c) for c in sites], refusals=[str(c) for c, _ in refs])
        if st['kind']:
            missing = cands[st['kind']] - set(site_keys) - set(ref_keys)
            if missing:
                mon.violate('unaccounted_candidate', name, 'a candidate point is neither a site nor a refusal',
                            missing=[view.stmts[t][2] for t in sorted(missing)], sites=[str(c) for c in sites], refusals=[str(c) for c, _ in refs])
        k = len(sites)

        # ---- C: bad indices -----------------------------------------------------------------
        for bad in (-1, k, k + 3):
            res.evaluations += 1
            try:
                g = st['apply'](f, bad)
            except Exception as e:
                if type(e).__name__ in REJECT_OK:
                    res.count('bad_index_rejected')
                else:
                    mon.violate('bad_index_crash', name, f'where={bad} with {k} sites raised {type(e).__name__}: {str(e)[:200]}', exception=type(e).__name__)
            else:
                mon.violate('bad_index_accepted', name, f'where={bad} accepted although the listing has {k} sites', result=g.format())

        # ---- B: where=j ---------------------------------------------------------------------
        js = list(range(k))
        if quick and k > 4:
            js = sorted(rng.sample(js, 4))
        for j in js:
            res.evaluations += 1
            site_t = cursor_stmt_tuple(sites[j])
            try:
                g = st['apply'](f, j)
            except Exception as e:
                en = type(e).__name__
                if en == 'TransformDeclined' and name.startswith('Rewrite'):
                    res.count('rewrite_overlap_declined')
                    continue
                mon.violate('listed_site_' + ('declined' if en == 'TransformDeclined' else 'crash'), name,
                            f'where={j} (a listed site) raised {en}: {str(e)[:300]}', site=str(sites[j]), exception=en,
                            traceback=''.join(traceback.format_exception(e))[-1200:])
                continue
            # a statement cursor takes every candidate at or beneath it (SiteRewriter), so it equals the index
            # only where no other site lies beneath this one
            all_ts = [cursor_stmt_tuple(c) for c in sites]
            alone = sum(1 for t in all_ts if is_prefix(site_t, t)) == 1 or type(sites[j]).__name__ == 'ExprCursor'
            if not alone:
                res.count('nested_site_cursor_not_compared')
            try:
                g2 = st['apply'](f, sites[j])
                same = g2.format() == g.format() or not alone
            except Exception as e:
                same = False
                g2 = None
                mon.violate('cursor_vs_index', name, f'where=sites[{j}] raised {type(e).__name__}: {str(e)[:200]} although where={j} succeeded', site=str(sites[j]))
                continue
            if not same:
                mon.violate('cursor_vs_index', name, f'where={j} and where=sites[{j}] give different programs', site=str(sites[j]),
                            by_index=g.format(), by_cursor=g2.format())
                continue
            log = g.edits
            if log is None:
                mon.violate('no_edit_log', name, 'an aimed rewrite reported no edit log')
                continue
            tch = {x for x in touched(log) if x[-1][0] != '+'}
            if tch != {site_t}:
                mon.violate('edits_not_the_site', name, f'where={j}: reported edits {sorted(tch)} are not exactly the listed site {site_t}', site=str(sites[j]),
                            result=g.format())
                continue
            changed = g.format() != f.format()
            if not changed:
                mon.violate('site_not_rewritten', name, f'where={j} left the program unchanged', site=str(sites[j]))
                continue
            res.nontrivial += 1
            if not check_unchanged(mon, name, f, g, view, tch, f'where={j}'):
                continue
            # the site itself forwards to its image, which carries its marker
            orig = view.stmts[site_t]
            try:
                img = g.forward(StmtCursor(f.ast, orig[0]))
                rt = resolved_text(img)
                om = own_marker(orig[1])
                res.evaluations += 1
                if om is not None and om not in markers(rt) | markers_of_temporaries(rt, f, g):
                    mon.violate('site_image_unrelated', name, f'where={j}: the rewritten site forwards to statements that do not descend from it',
                                statement=orig[2], resolved=rt)
            except TransformReferenceError:
                res.count('site_image_refused')

        # ---- D: where=None ------------------------------------------------------------------
        if k:
            res.evaluations += 1
            try:
                g = st['apply'](f, None)
            except Exception as e:
                en = type(e).__name__
                if en == 'TransformDeclined' and name.startswith('Rewrite'):
                    res.count('rewrite_overlap_declined')
                else:
                    mon.violate('all_sites_' + ('declined' if en == 'TransformDeclined' else 'crash'), name,
                                f'where=None raised {en}: {str(e)[:300]} although {k} sites are listed', exception=en,
                                traceback=''.join(traceback.format_exception(e))[-1200:])
                continue
            log = g.edits
            tch = {x for x in touched(log) if x[-1][0] != '+'}
            site_ts = {cursor_stmt_tuple(c) for c in sites}
            outer = {t for t in site_ts if not any(o != t and is_prefix(o, t) for o in site_ts)}
            if tch != outer:
                mon.violate('all_sites_mismatch', name, f'where=None: reported edits {sorted(tch)} differ from the outermost listed sites {sorted(outer)}',
                            result=g.format())
                continue
            res.nontrivial += 1
            check_unchanged(mon, name, f, g, view, tch, 'where=None')

    # ---- E: histories ---------------------------------------------------------------------------
    stmt_cursors = [(t, StmtCursor(f.ast, view.stmts[t][0])) for t in view.order]
    region_cursors = []
    for t in view.order:
        nxt = t[:-1] + (('#', t[-1][1] + 1),)
        if nxt in view.stmts and rng.random() < 0.5:
            region_cursors.append(((t, nxt), BlockCursor(f.ast, view.stmts[t][0].parent, range(t[-1][1], t[-1][1] + 2))))
    expr_cursors = []
    for p, e in walk_exprs(f.ast):
        if rng.random() < 0.35 or type(e).__name__ == 'Call':
            try:
                expr_cursors.append((ptuple(p), ExprCursor(f.ast, p), e.format()))
            except Exception:
                pass
    allmarks = markers(f.format())
    nseq = 3 if quick else 8
    for _ in range(nseq):
        cur = f
        nedits = 0
        steps = []
        for step in range(rng.randint(1, 4)):
            st = rng.choice(strats)
            try:
                sl = st['sites'](cur)
            except Exception as e:
                res.count('seq_listing_error')
                res.evaluations += 1
                mon.violate('listing_crash', st['name'], f'listing a derived program raised {type(e).__name__}: {str(e)[:200]}', steps=steps,
                            traceback=''.join(traceback.format_exception(e))[-1500:], exception=type(e).__name__, program=cur.format())
                continue
            mode = rng.random()
            if mode < 0.25 or not sl:
                where = None
            elif mode < 0.55:
                where = rng.randrange(len(sl))
            elif mode < 0.8:
                where = rng.choice(sl)
            else:
                # a cursor of the FIRST program handed to a later one: rebased by the strategy itself
                where = rng.choice(stmt_cursors)[1]
            try:
                nxt = st['apply'](cur, where)
            except Exception as e:
                en = type(e).__name__
                if en in ('TransformReferenceError', 'TransformDeclined'):
                    res.count('seq_step_refused')
                    continue
                res.evaluations += 1
                mon.violate('seq_step_crash', st['name'], f'step raised {en}: {str(e)[:300]}', steps=steps + [f"{st['name']} where={where if not hasattr(where, 'func') else str(where)}"],
                            exception=en, traceback=''.join(traceback.format_exception(e))[-1200:], program=cur.format())
                continue
            steps.append(f"{st['name']} where={where if not hasattr(where, 'func') else str(where)}")
            if nxt.edits is not None and (nxt.edits.edits or nxt.edits.exprs_rewritten):
                nedits += 1
            cur = nxt
            if len(cur.format()) > 60000:
                break
        if cur is f:
            continue
        res.count('sequences')
        final_text = cur.format()
        # statement cursors
        for t, c in stmt_cursors:
            p, s, text = view.stmts[t]
            res.evaluations += 1
            try:
                img = cur.forward(c)
                rt = resolved_text(img)
            except TransformReferenceError:
                res.count('seq_forward_refused')
                continue
            except Exception as e:
                mon.violate('forward_crash', 'forward', f'forwarding raised {type(e).__name__}: {str(e)[:300]}', steps=steps, statement=text,
                            traceback=''.join(traceback.format_exception(e))[-1200:], exception=type(e).__name__)
                break
            res.count('seq_forward_resolved')
            res.nontrivial += 1 if nedits else 0
            om = own_marker(s)
            got = markers(rt) & allmarks
            if (om is not None and om not in got | markers_of_temporaries(rt, f, cur)) or not got <= markers(text):
                mon.violate('forward_unrelated', 'forward', 'a forwarded statement cursor resolves to statements that do not descend from the one it named',
                            steps=steps, statement=text, resolved=rt, final=final_text)
                break
        for (ta, tb), c in region_cursors:
            res.evaluations += 1
            texts = view.stmts[ta][2] + '\n' + view.stmts[tb][2]
            try:
                img = cur.forward(c)
                rt = resolved_text(img)
            except TransformReferenceError:
                res.count('seq_forward_refused')
                continue
            except Exception as e:
                mon.violate('forward_crash', 'forward', f'forwarding a region raised {type(e).__name__}: {str(e)[:300]}', steps=steps, statement=texts,
                            traceback=''.join(traceback.format_exception(e))[-1200:], exception=type(e).__name__)
                break
            res.count('seq_region_resolved')
            got = markers(rt) & allmarks
            oa, ob = own_marker(view.stmts[ta][1]), own_marker(view.stmts[tb][1])
            tmp = markers_of_temporaries(rt, f, cur)
            if (oa and oa not in got | tmp) or (ob and ob not in got | tmp) or not got <= markers(texts):
                mon.violate('forward_unrelated', 'forward', 'a forwarded region resolves to statements that do not descend from the ones it named',
                            steps=steps, statement=texts, resolved=rt, final=final_text)
                break
        for t, c, etext in expr_cursors:
            res.evaluations += 1
            try:
                img = cur.forward(c)
                rt = img.resolve().format()
            except TransformReferenceError:
                res.count('seq_expr_refused')
                continue
            except Exception as e:
                mon.violate('forward_crash', 'forward', f'forwarding an expression raised {type(e).__name__}: {str(e)[:300]}', steps=steps, statement=etext,
                            traceback=''.join(traceback.format_exception(e))[-1200:], exception=type(e).__name__)
                break
            res.count('seq_expr_resolved')
            if rt != etext:
                mon.violate('forward_expr_changed', 'forward', 'a forwarded expression cursor resolves to a different expression',
                            steps=steps, statement=etext, resolved=rt, final=final_text)
                break


def shard(i: int, n: int, tier: str, seed: int) -> Result:
    from ..gen import prog as genprog, run as genrun
    res = Result(PROP, tier, seed)
    rng = random.Random(seed * 7919 + i)
    quick = tier == 'quick'
    nprog = 60 if quick else 700
    with genrun.Scratch(prefix='vf-c19-') as work:
        for pi in range(nprog):
            if len(res.violations) >= 25:
                res.count('stopped_early_violations')
                break
            g = Gen(rng, max_depth=rng.choice([2, 3, 3]), hostile=False)
            src = g.program(rng.choice([2, 3, 4, 5, 6]))
            try:
                mod = genprog.load_module(src, work, 'c19')
            except Exception as e:
                res.count(f'rejected:{type(e).__name__}')
                continue
            res.count('programs')
            out = genrun.guarded(lambda: run_program(res, rng, mod, src, quick), timeout=120.0)
            if out[0] == 'timeout':
                res.count('program_timeout')
            elif out[0] == 'exc':
                res.count(f'harness_error:{type(out[1]).__name__}')
                res.extra.setdefault('harness_errors', [])
                if len(res.extra['harness_errors']) < 3:
                    res.extra['harness_errors'].append(''.join(traceback.format_exception(out[1]))[-1500:])
            if pi < 1:
                res.sample({'program': src[src.find('@fp.fpy(ctx=fp.REAL)'):][:900]})
            genprog.unload(mod)
    return res


def main(tier: str) -> int:
    s = get_seed()
    res = Result(PROP, tier, s, rule=RULE)
    res.assumptions = ['descent is decided by markers: every generated statement introduces a unique identifier or literal that no rewrite invents',
                       'a refused forward (TransformReferenceError) is always acceptable; resolving elsewhere never is',
                       'candidate definition (mine): every for, every while, every underscore-bound with-block whose statements are all `v = fp.round(var)`']
    run_shards('vf.checks.c19', 16, tier, s, timeout=1500 if tier == 'quick' else 3400, res=res)
    c = res.counters
    if not res.violations:
        if c.get('seq_forward_resolved', 0) < 200 or c.get('sites', 0) < 200:
            res.inconclusive.append(f"too little observed: {c.get('seq_forward_resolved', 0)} resolved forwards, {c.get('sites', 0)} sites")
        if any(k.startswith('harness_error') for k in c):
            res.inconclusive.append('harness errors: ' + ', '.join(f'{k}={v}' for k, v in c.items() if k.startswith('harness_error')))
    return finish(res)


if __name__ == '__main__':
    shard_main(shard)
