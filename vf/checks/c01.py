"""
C01 -- rounding under any context is correct rounding.

Workload: every context of `vf.gen.ctxs` x every breakpoint operand of its
format x presentations, through ctx.round / ctx.round_at / round_integer,
with the RoundMonitor post-condition (independent oracle) on every call.
"""
from __future__ import annotations

import random
import sys
from fractions import Fraction

from ..common import Result, finish, run_shards, seed as get_seed, shard_main

PROP = 'C01'
RULE = ('one evaluation = one monitored ctx.round/round_at call compared with the independent oracle '
        '(value, inexact/overflow flags, membership, representable_under); non-trivial = operand not '
        'representable (inexact) or overflowing, counted distinct per (context, operand value, n)')


def shard(i: int, n: int, tier: str, seed: int) -> Result:
    from ..gen import ctxs, operands
    from ..monitors.roundmon import RoundMonitor
    from ..oracle.describe import describe, val_str
    from fpy2.number import Float

    res = Result(PROP, tier, seed)
    mon = RoundMonitor().install()
    rng = random.Random(seed * 1000003 + i)
    quick = tier == 'quick'
    all_ctx = list(ctxs.contexts(tier))
    # deterministic shuffle so shards get a mix of families
    random.Random(12345).shuffle(all_ctx)
    mine = all_ctx[i::n]
    nctx = 0
    distinct = 0
    specials = operands.specials()
    for fam, text in mine:
        try:
            ctx = ctxs.build(text)
        except Exception as e:
            res.count(f'ctor_rejected:{fam}')
            continue
        nctx += 1
        fd = describe(ctx)
        mon.current_tag = text
        pts = operands.breakpoints(fd, dense=not quick or nctx % 3 == 0)
        before = mon.nontrivial
        for v in pts:
            for kind, obj in operands.presentations(v, all_forms=(not quick) or rng.random() < 0.25):
                try:
                    ctx.round(obj)
                except Exception:
                    pass
        for kind, obj, _ in specials:
            try:
                ctx.round(obj)
            except Exception:
                pass
        # round_at / round_integer / exact on a subsample
        if fd.family != 'real':
            if fd.expmin is not None:
                ns = list(range(fd.expmin - 3, fd.expmin + 5))
            else:
                ns = list(range(-6, 4))
            sub = pts if not quick else rng.sample(pts, min(len(pts), 40))
            for v in sub:
                for kind, obj in operands.presentations(v, all_forms=False):
                    nn = rng.choice(ns)
                    try:
                        ctx.round_at(obj, nn)
                    except Exception:
                        pass
                    if rng.random() < 0.3:
                        try:
                            ctx.round_integer(obj)
                        except Exception:
                            pass
                    if rng.random() < 0.3:
                        try:
                            ctx.round(obj, exact=True)
                        except Exception:
                            pass
            for kind, obj, _ in specials:
                try:
                    ctx.round_at(obj, rng.choice(ns))
                except Exception:
                    pass
        distinct += mon.nontrivial - before
        if nctx <= 2:
            res.sample({'context': text, 'operands': len(pts), 'first_operands': [str(p) for p in pts[:6]]})

    if tier == 'thorough':
        # named large formats, boundary-focused operands
        big = list(ctxs.big_contexts())
        for fam, text in big[i::n]:
            try:
                ctx = ctxs.build(text)
                fd = describe(ctx)
            except Exception:
                res.count('big_skipped')
                continue
            mon.current_tag = text
            for v in _big_operands(fd, rng):
                for kind, obj in operands.presentations(v, all_forms=True):
                    try:
                        ctx.round(obj)
                    except Exception:
                        pass
            for kind, obj, _ in specials:
                try:
                    ctx.round(obj)
                except Exception:
                    pass
            nctx += 1

    mon.uninstall()
    snap = mon.snapshot()
    res.evaluations = snap['checked']
    res.nontrivial = snap['nontrivial']
    res.counters.update({f'outcome:{k}': v for k, v in snap['by_outcome'].items()})
    res.counters.update({f'family:{k}': v for k, v in snap['by_family'].items()})
    res.counters.update({f'skipped:{k}': v for k, v in snap['skipped'].items()})
    res.counters['contexts'] = nctx
    res.counters['monitor_calls'] = snap['calls']
    for w in mon.violations:
        res.violate(w)
    return res


def _big_operands(fd, rng):
    from ..oracle.rnd import neighbours, pow2, ilog2
    pts = set()
    anchors = [Fraction(1), Fraction(3, 2), Fraction(1, 3), Fraction(10) ** 5, Fraction(1, 10 ** 7)]
    if fd.pos_max is not None and fd.pos_max > 0:
        anchors += [fd.pos_max, fd.pos_max / 2, fd.pos_max * 2]
    if fd.neg_max is not None and fd.neg_max < 0:
        anchors += [-fd.neg_max]
    if fd.expmin is not None:
        u = pow2(fd.expmin)
        anchors += [u, u / 2, u * 3 / 2, u * (1 << (fd.p or 4)), u * ((1 << (fd.p or 4)) - 1)]
    for _ in range(20):
        e = rng.randint(-30, 30)
        anchors.append(Fraction(rng.getrandbits(70) | 1) * pow2(e - 70))
    for a in anchors:
        if a <= 0:
            continue
        lo, hi, q, k = neighbours(fd, a)
        u = pow2(q)
        if lo == hi:
            hi = lo + u
        mid = (lo + hi) / 2
        for t in (lo, hi, mid, mid + u / (1 << 30), mid - u / (1 << 30), lo + u / 3, hi - u / 7, lo - u / 2 if lo > u else lo):
            if t > 0:
                pts.add(t)
                pts.add(-t)
    return sorted(pts)


def main(tier: str) -> int:
    s = get_seed()
    res = Result(PROP, tier, s, rule=RULE)
    res.assumptions = [
        'oracle: vf/oracle/rnd.py (Fractions + floor, IEEE 754 4.3/7.4); spec-silent cases accept a set',
        'formats wider than the swept widths are only sampled',
    ]
    nsh = 16 if tier == 'quick' else 48
    run_shards('vf.checks.c01', nsh, tier, s, timeout=600 if tier == 'quick' else 3600, res=res)
    res.exhaustive = False
    res.extra['breakpoint_sweep'] = 'every representable value, midpoint and near-neighbours of each small format listed in vf/gen/ctxs.py'
    return finish(res)


if __name__ == '__main__':
    shard_main(shard)
