"""
C03 -- elementary functions and constants are correctly rounded.

Every call of the transcendental functions / constants of fpy2.ops is observed
by the FnMonitor post-condition (MPFR enclosure at growing precision + the
independent rounding oracle).  Workload: constants x every precision x modes x
float/subnormal/fixed targets; functions x all operands of small source formats
x target precisions x modes, with the hardest cases (most enclosure bits
needed) re-run under every mode.
"""
from __future__ import annotations

import random
from fractions import Fraction

from ..common import Result, finish, run_shards, seed as get_seed, shard_main

PROP = 'C03'
RULE = ('one evaluation = one monitored function/constant call compared with the true value rounded once '
        '(enclosure oracle); non-trivial = distinct (function, operand, context) with an irrational true value')
MODES = ['RNE', 'RNA', 'RTP', 'RTN', 'RTZ', 'RAZ', 'RTO', 'RTE']


def operands(tier):
    from fpy2.number import Float
    quick = tier == 'quick'
    out = []
    cs = (1, 3, 5, 7) if quick else (1, 3, 5, 7, 9, 11, 13, 15, 17, 21, 27, 31)
    exps = range(-5, 4) if quick else range(-8, 6)
    for c in cs:
        for e in exps:
            for s in (False, True):
                out.append(Float(s=s, c=c, exp=e))
    out += [Float(c=0, exp=0), Float(s=True, c=0, exp=0), Float(isinf=True), Float(s=True, isinf=True), Float(isnan=True),
            1, 2, 3, 4, 5, 8, 10, 100, -1, 0.5, 0.25, 64.0,
            Float(c=(1 << 52) + 1, exp=-52), Float(c=(1 << 23) - 1, exp=-24)]
    return out


# arguments far from the origin: only for functions whose value stays moderate
# (results near the MPFR exponent limits are outside the swept range, see DESIGN)
LARGE_OK = ['sin', 'cos', 'tan', 'atan', 'tanh', 'erf', 'erfc', 'asinh', 'log', 'log2', 'log10', 'log1p', 'acosh']


def large_operands():
    from fpy2.number import Float
    return [Float(c=3, exp=40), Float(s=True, c=5, exp=30), 1e6, 1000, Float(c=(1 << 60) + 1, exp=3), Float(c=1, exp=-200), Float(s=True, c=3, exp=-90)]


def const_contexts(tier, rng):
    quick = tier == 'quick'
    pmax = 130 if quick else 400
    out = []
    for p in range(1, pmax + 1):
        for rm in MODES:
            out.append(f'MPFloatContext({p}, RM.{rm})')
        rm = MODES[p % 8]
        out.append(f'MPSFloatContext({p}, {rng.choice([-1, 0, 1, 2])}, RM.{rm})')
        out.append(f'MPFixedContext({-p}, RM.{rm})')
        out.append(f'MPFixedContext({-p}, RM.{MODES[(p + 3) % 8]})')
        if not quick:
            for rm2 in MODES:
                out.append(f'MPFixedContext({-p}, RM.{rm2})')
    out += ['fp.FP16', 'fp.FP32', 'fp.FP64', 'fp.FP128', 'fp.BF16', 'FixedContext(True, -12, 16, RM.RNE, OV.SATURATE)']
    return out


def fn_contexts(tier, rng):
    quick = tier == 'quick'
    out = []
    ps = range(1, 7) if quick else range(1, 13)
    for p in ps:
        for rm in MODES:
            out.append(f'MPFloatContext({p}, RM.{rm})')
        out.append(f'MPSFloatContext({p}, -2, RM.{MODES[p % 8]})')
        out.append(f'MPSFloatContext({p}, 1, RM.{MODES[(p + 5) % 8]})')
    for nmin in ((-3, -1, 1) if quick else (-6, -4, -3, -2, -1, 0, 1, 3)):
        for rm in (MODES if not quick else MODES[::2] + ['RTO']):
            out.append(f'MPFixedContext({nmin}, RM.{rm})')
    for p in ((24, 53) if quick else (24, 53, 64, 113, 200, 300)):
        for rm in (('RNE', 'RTZ', 'RTP') if quick else MODES):
            out.append(f'MPFloatContext({p}, RM.{rm})')
    out += ['IEEEContext(3, 6, RM.RNE)', 'IEEEContext(3, 6, RM.RTP)', 'IEEEContext(4, 8, RM.RTN)',
            'EFloatContext(3, 6, False, EFloatNanKind.MAX_VAL, 0, RM.RNE)', 'FixedContext(True, -3, 8, RM.RNE, OV.SATURATE)',
            'fp.FP16', 'fp.FP32', 'fp.FP64']
    return out


def shard(i: int, n: int, tier: str, seed: int) -> Result:
    from ..gen import ctxs
    from ..monitors.fnmon import FnMonitor, UNARY_FNS, BINARY_FNS, CONSTS
    from fpy2 import ops
    res = Result(PROP, tier, seed)
    rng = random.Random(seed * 7 + 11)
    mon = FnMonitor().install()
    quick = tier == 'quick'
    # constants
    cctx = const_contexts(tier, rng)
    for text in cctx[i::n]:
        ctx = ctxs.build(text)
        mon.tag = text
        for c in CONSTS:
            try:
                getattr(ops, c)(ctx=ctx)
            except Exception:
                pass
    res.counters['const_contexts'] = len(cctx[i::n])
    # functions
    xs = operands(tier)
    fctx = fn_contexts(tier, rng)
    random.Random(5).shuffle(fctx)
    mine = fctx[i::n]
    built = []
    for text in mine:
        ctx = ctxs.build(text)
        built.append((text, ctx))
        mon.tag = text
        for x in xs:
            for f in UNARY_FNS:
                try:
                    getattr(ops, f)(x, ctx=ctx)
                except Exception:
                    pass
        for x in large_operands():
            for f in LARGE_OK:
                try:
                    getattr(ops, f)(x, ctx=ctx)
                except Exception:
                    pass
        ys = xs if not quick else rng.sample(xs, 25)
        for x in (xs if not quick else rng.sample(xs, 40)):
            for y in ys:
                for f in BINARY_FNS:
                    try:
                        getattr(ops, f)(x, y, ctx=ctx)
                    except Exception:
                        pass
    res.counters['fn_contexts'] = len(mine)
    # hard-case hunting: the operands whose enclosure needed most bits, again under every context of this shard
    hard = sorted(mon.hard, key=lambda h: -h[0])[:40]
    nrerun = 0
    from fpy2.number import RM
    for (bits, name, _vs, tag, args, hctx) in hard:
        for rm in MODES:
            try:
                c2 = hctx.with_params(rm=getattr(RM, rm))
            except Exception:
                continue
            mon.tag = f'{tag} [hard case, rm={rm}]'
            try:
                getattr(ops, name)(*args, ctx=c2)
            except Exception:
                pass
            nrerun += 1
    res.counters['hard_cases_rerun'] = nrerun
    snap = mon.snapshot()
    mon.uninstall()
    res.evaluations = snap['checked']
    res.nontrivial = snap['nontrivial']
    res.counters.update({f'op:{k}': v for k, v in snap['by_op'].items()})
    res.counters.update({f'skipped:{k}': v for k, v in snap['skipped'].items()})
    res.counters['oracle_inconclusive'] = snap['inconclusive']
    res.counters['exact_cases'] = snap['exact_cases']
    res.extra['max_enclosure_bits'] = [snap['max_bits']]
    if hard and i == 0:
        res.sample({'hardest_case': {'bits': hard[0][0], 'op': hard[0][1], 'args': hard[0][2], 'context': hard[0][3]}})
    if i == 0:
        res.sample({'constants': CONSTS, 'functions': UNARY_FNS + BINARY_FNS, 'operands': len(xs), 'fn_contexts_this_shard': mine[:3]})
    for w in mon.violations:
        res.violate(w)
    stochastic_pass(res, i, n, quick)
    return res


def stochastic_pass(res, i, n, quick):
    """
    Functions and constants under contexts with random bits (mechanism 4 of the property's anchors: the engine is asked for
    pmax + num_randbits digits): with the draw scripted, every result is one of the two neighbours of the true value, and over all
    2^k draws the number that come out as the neighbour away from zero is the offset of the true value in its gap in units of
    2^-k, rounded as the mode says - i.e. the position of the true value rounded once to p + k digits under the context's mode.
    All three reference values come from the enclosure oracle on deterministic descriptions (p digits toward zero, p digits away
    from zero, p + k digits under the mode); results stay in the normal range of the formats used.
    """
    import fpy2 as fp
    from fpy2 import ops
    from fractions import Fraction
    from ..monitors.fnmon import FnMonitor
    from ..oracle.describe import describe, to_val
    from ..oracle import ziv
    from .c17 import ScriptedRandom
    mon = FnMonitor()        # used for its oracle only; not installed
    fns = ['exp', 'log', 'sin', 'cos', 'atan', 'tanh', 'log2', 'exp2', 'sinh', 'asinh', 'erf', 'const_pi', 'const_e', 'const_log2e', 'const_1_pi']
    xs = [Fraction(5, 16), Fraction(11, 16), Fraction(9, 8), Fraction(15, 8), Fraction(5, 2), Fraction(27, 8)]
    cases = []
    for (es, nbits) in ((5, 11), (8, 16), (6, 14)):
        for rm in (fp.RM.RNE, fp.RM.RTZ, fp.RM.RAZ, fp.RM.RTP, fp.RM.RNA):
            for k in (1, 2, 3):
                cases.append((es, nbits, rm, k))
    for (es, nbits, rm, k) in cases[i::n]:
        p = nbits - es
        rng = ScriptedRandom()
        try:
            sctx = fp.IEEEContext(es, nbits, rm, fp.OV.OVERFLOW, k, rng=rng)
        except Exception:
            res.count('stochastic:ctor_rejected')
            continue
        fd_lo = describe(fp.MPFloatContext(p, fp.RM.RTZ))
        fd_hi = describe(fp.MPFloatContext(p, fp.RM.RAZ))
        fd_ext = describe(fp.MPFloatContext(p + k, rm))
        for name in fns:
            for x in (xs if not name.startswith('const_') else [None]):
                vals = [] if x is None else [('fin', False, x)]
                try:
                    lo = mon.expected(name, vals, fd_lo)[0].values[0]
                    hi = mon.expected(name, vals, fd_hi)[0].values[0]
                    ext = mon.expected(name, vals, fd_ext)[0].values[0]
                except ziv.Inconclusive:
                    continue
                except Exception:
                    res.count('stochastic:oracle_error')
                    continue
                if lo == hi or lo[0] != 'fin' or hi[0] != 'fin':
                    continue
                gap = hi[2] - lo[2]
                want = (ext[2] - lo[2]) * (1 << k) / gap
                if want.denominator != 1:
                    res.count('stochastic:oracle_error')
                    continue
                away, outside = 0, None
                for r in range(1 << k):
                    rng.value = r
                    rng.calls.clear()
                    try:
                        out = getattr(ops, name)(*([fp.Float.from_rational(x)] if x is not None else []), ctx=sctx)
                    except Exception as e:
                        outside = f'raised {type(e).__name__}: {e}'
                        break
                    ov = to_val(out)
                    if ov == hi:
                        away += 1
                    elif ov != lo:
                        outside = f'draw {r}: result {out} is neither neighbour'
                        break
                res.evaluations += 1
                res.nontrivial += 1
                res.count('stochastic:distributions')
                if outside or away != want:
                    res.violate({'property': PROP, 'function': name, 'operand': str(x), 'context': f'IEEEContext({es}, {nbits}, {rm.name}, OVERFLOW, {k}, rng=scripted)',
                                 'problem': outside or f'{away} of {1 << k} draws give the neighbour away from zero, the true value rounded to p + k digits asks for {want}',
                                 'neighbours': [str(lo[2]), str(hi[2])], 'mechanism': {'part': 'stochastic', 'function': name}})


def main(tier: str) -> int:
    s = get_seed()
    res = Result(PROP, tier, s, rule=RULE)
    res.assumptions = ['MPFR correct rounding of a single function call (enclosure = value +- 2^-(w-6) relative at working precision w)',
                       'special operands (NaN/inf/zero/out of domain): MPFR\'s IEEE special-case tables',
                       f'cases needing more than 16384 bits are inconclusive']
    run_shards('vf.checks.c03', 16 if tier == 'quick' else 48, tier, s, timeout=900 if tier == 'quick' else 3600, res=res)
    inc = res.counters.get('oracle_inconclusive', 0)
    if res.evaluations and inc > 0.05 * res.evaluations:
        res.inconclusive.append(f'oracle hit its precision cap on {inc} of {res.evaluations} cases')
    mb = res.extra.get('max_enclosure_bits')
    if isinstance(mb, list) and mb:
        res.extra['max_enclosure_bits'] = max(mb)
    return finish(res)


if __name__ == '__main__':
    shard_main(shard)
