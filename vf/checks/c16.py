"""
C16 -- encodings and ordinals are order-preserving bijections.

Every bit pattern of every small encodable format is decoded by the real
`decode` and by the independent layout decoder; round trips, ordinals,
next_up/next_down, normalize, representable_under and min/max queries are
compared with the decoded value set.
"""
from __future__ import annotations

import random
import struct
from fractions import Fraction

from ..common import Result, finish, run_shards, seed as get_seed, shard_main

PROP = 'C16'
RULE = ('one evaluation = one oracle comparison (a decoded pattern, a round trip, an ordinal step, a neighbour query, '
        'a membership query); non-trivial = distinct (format, bit pattern) or (format, value) pairs examined')


def _formats(tier):
    """(family, text, decoder closure, nbits) for every encodable format swept."""
    from ..oracle import layout
    from ..gen import ctxs
    quick = tier == 'quick'
    out = []
    eoffs = (0, -3, 2) if quick else (-3, -2, -1, 0, 1, 2, 3)
    for (es, nbits, inf, nk, eo) in ctxs.efloat_formats(8 if quick else 10, eoffs):
        text = f'EFloatContext({es}, {nbits}, {inf}, EFloatNanKind.{ctxs.NAN_KINDS[nk]}, {eo})'
        out.append(('efloat', text, ('efloat', es, nbits, inf, nk, eo), nbits))
    for es in range(1, 7 if quick else 8):
        for nbits in range(es + 2, (11 if quick else 13)):
            out.append(('ieee', f'IEEEContext({es}, {nbits})', ('efloat', es, nbits, True, layout.IEEE_754, 0), nbits))
    for signed in (True, False):
        for nbits in range(2 if signed else 1, (9 if quick else 11)):
            for scale in ((-4, 0, 3) if quick else range(-4, 5)):
                out.append(('fixed', f'FixedContext({signed}, {scale}, {nbits})', ('fixed', signed, scale, nbits), nbits))
    for nbits in range(2, (9 if quick else 11)):
        for scale in ((-3, 0, 2) if quick else range(-4, 5)):
            out.append(('smfixed', f'SMFixedContext({scale}, {nbits})', ('smfixed', scale, nbits), nbits))
    for nbits in range(1, (9 if quick else 11)):
        for eo in ((0, -2, 3) if quick else range(-3, 4)):
            out.append(('exp', f'ExpContext({nbits}, {eo})', ('exp', nbits, eo), nbits))
    return out


def _decode(spec, b):
    from ..oracle import layout
    if spec[0] == 'efloat':
        return layout.decode_efloat(spec[1], spec[2], spec[3], spec[4], spec[5], b)
    if spec[0] == 'fixed':
        return layout.decode_fixed(spec[1], spec[2], spec[3], b)
    if spec[0] == 'smfixed':
        return layout.decode_smfixed(spec[1], spec[2], b)
    if spec[0] == 'exp':
        return layout.decode_exp(spec[1], spec[2], b)
    raise ValueError(spec)


def _nv(d):
    """normalise layout tuple to the oracle value tuple"""
    if d[0] == 'nan':
        return ('nan',)
    if d[0] == 'inf':
        return ('inf', d[1])
    return ('fin', d[1], d[2])


class Acc:
    def __init__(self, res, fam, text):
        self.res, self.fam, self.text = res, fam, text
        self.n = 0

    def bad(self, op, detail, **kw):
        self.res.violate({'property': PROP, 'format': self.text, 'op': op, 'detail': detail, **kw,
                          'mechanism': {'family': self.fam, 'op': op, **{k: v for k, v in kw.items() if k in ('nan_kind', 'p1', 'degenerate', 'special')}}})

    def ok(self, k=1):
        self.n += k


def check_encodable(acc: Acc, ctx, spec, nbits):
    from fpy2.number import Float
    from ..oracle.describe import to_val, val_str
    from ..monitors.roundmon import same_val
    extra = {}
    if spec[0] == 'efloat':
        extra = {'nan_kind': spec[4], 'p1': (spec[2] - spec[1]) == 1, 'degenerate': spec[2] <= 2}
    vals = {}          # signed Fraction -> list of patterns
    has_nz = False
    for b in range(1 << nbits):
        want = _nv(_decode(spec, b))
        try:
            d = ctx.decode(b)
        except Exception as e:
            acc.bad('decode', f'pattern {b:#b} raised {type(e).__name__}: {e}', **extra)
            continue
        got = to_val(d)
        acc.ok()
        if not same_val(got, want):
            acc.bad('decode', f'pattern {b:#b}: decode gives {val_str(got)}, layout says {val_str(want)}', **extra)
            continue
        sp = dict(extra, special=want[0] if want[0] != 'fin' else None)
        # membership of a decoded value
        try:
            if not ctx.representable_under(Float(x=d, ctx=None)):
                acc.bad('representable_under', f'decode({b:#b})={val_str(got)} reported unrepresentable', **sp)
        except Exception as e:
            acc.bad('representable_under', f'decode({b:#b}) raised {type(e).__name__}: {e}', **sp)
        acc.ok()
        # encode(decode(b)) == b up to NaN payloads
        try:
            e2 = ctx.encode(d)
        except Exception as e:
            acc.bad('encode', f'encode(decode({b:#b})={val_str(got)}) raised {type(e).__name__}: {e}', **sp)
            continue
        acc.ok()
        if want[0] == 'nan':
            back = _nv(_decode(spec, e2)) if 0 <= e2 < (1 << nbits) else None
            if back is None or back[0] != 'nan':
                acc.bad('encode', f'encode(NaN) = {e2:#b} which is not a NaN pattern', **sp)
        elif e2 != b:
            acc.bad('encode', f'encode(decode({b:#b})={val_str(got)}) = {e2:#b}', **sp)
        if want[0] == 'fin':
            v = -want[2] if want[1] else want[2]
            vals.setdefault(v, []).append(b)
            if want[2] == 0 and want[1]:
                has_nz = True
            # normalize keeps the value
            try:
                nz = ctx.normalize(d)
                if not same_val(to_val(nz), want):
                    acc.bad('normalize', f'normalize({val_str(got)}) = {val_str(to_val(nz))}', **extra)
                acc.ok()
            except Exception as e:
                acc.bad('normalize', f'normalize({val_str(got)}) raised {type(e).__name__}: {e}', **extra)
            # ... however the member is encoded: the same value with the significand shifted up / down (c << j, exp - j; trailing zero
            # digits shifted off), and through the format as well as through the context
            if want[2] != 0 and not d.is_nar():
                from fpy2.number import Float as _F
                alts = [_F(s=d.s, c=d.c << j, exp=d.exp - j) for j in (1, 3)]
                c0, e0 = d.c, d.exp
                while c0 and c0 % 2 == 0:
                    c0, e0 = c0 >> 1, e0 + 1
                if e0 != d.exp:
                    alts.append(_F(s=d.s, c=c0, exp=e0))
                for alt in alts:
                    for who, fn in (('ctx', ctx.normalize), ('format', ctx.format().normalize)):
                        try:
                            nz = fn(alt)
                        except Exception as e:
                            acc.bad('normalize', f'{who}.normalize(c={alt.c}, exp={alt.exp}) raised {type(e).__name__}: {e}', **extra)
                            continue
                        if not same_val(to_val(nz), want):
                            acc.bad('normalize', f'{who}.normalize(c={alt.c}, exp={alt.exp}) [= {val_str(want)}] = {val_str(to_val(nz))}', **extra)
                        acc.ok()
    return vals, has_nz, extra


def check_ordinals(acc: Acc, ctx, sorted_vals, extra, mk, closed: bool, has_nz=False):
    """
    sorted_vals: increasing Fractions that are consecutive members of the
    format.  closed: the list is the complete finite value set (ends are the
    extreme values).
    """
    from ..oracle.describe import to_val, val_str
    prev_o = None
    ords = []
    for i, v in enumerate(sorted_vals):
        x = mk(v)
        try:
            o = ctx.to_ordinal(x)
        except Exception as e:
            acc.bad('to_ordinal', f'to_ordinal({v}) raised {type(e).__name__}: {e}', **extra)
            ords.append(None)
            continue
        ords.append(o)
        acc.ok()
        if not isinstance(o, int):
            acc.bad('to_ordinal', f'to_ordinal({v}) = {o!r} is not an int', **extra)
            continue
        if prev_o is not None and o != prev_o + 1:
            acc.bad('to_ordinal', f'ordinals not contiguous/increasing: {sorted_vals[i-1]} -> {prev_o}, {v} -> {o}', **extra)
        prev_o = o
        try:
            back = ctx.from_ordinal(o)
            if to_val(back)[0] != 'fin' or back.as_rational() != v:
                acc.bad('from_ordinal', f'from_ordinal(to_ordinal({v})={o}) = {val_str(to_val(back))}', **extra)
            acc.ok()
        except Exception as e:
            acc.bad('from_ordinal', f'from_ordinal({o}) raised {type(e).__name__}: {e}', **extra)
        if v == 0:
            if has_nz:
                try:
                    o2 = ctx.to_ordinal(mk(v, True))
                    if o2 != o:
                        acc.bad('to_ordinal', f'-0 -> {o2} but +0 -> {o}', **extra)
                    acc.ok()
                except Exception as e:
                    acc.bad('to_ordinal', f'to_ordinal(-0) raised {type(e).__name__}: {e}', **extra)
    # neighbours
    for i, v in enumerate(sorted_vals):
        x = mk(v)
        if i + 1 < len(sorted_vals):
            try:
                u = ctx.next_up(x)
                if to_val(u)[0] != 'fin' or u.as_rational() != sorted_vals[i + 1]:
                    acc.bad('next_up', f'next_up({v}) = {val_str(to_val(u))}, expected {sorted_vals[i+1]}', **extra)
                acc.ok()
            except Exception as e:
                acc.bad('next_up', f'next_up({v}) raised {type(e).__name__}: {e}', **extra)
        if i > 0:
            try:
                u = ctx.next_down(x)
                if to_val(u)[0] != 'fin' or u.as_rational() != sorted_vals[i - 1]:
                    acc.bad('next_down', f'next_down({v}) = {val_str(to_val(u))}, expected {sorted_vals[i-1]}', **extra)
                acc.ok()
            except Exception as e:
                acc.bad('next_down', f'next_down({v}) raised {type(e).__name__}: {e}', **extra)
        # non-members between neighbours
        if i + 1 < len(sorted_vals):
            mid = (v + sorted_vals[i + 1]) / 2
            try:
                from fpy2.number import RealFloat
                m = RealFloat.from_rational(mid)
                if ctx.representable_under(m):
                    acc.bad('representable_under', f'{mid} (between {v} and {sorted_vals[i+1]}) reported representable', **extra)
                acc.ok()
            except ValueError:
                pass
            except Exception as e:
                acc.bad('representable_under', f'representable_under({mid}) raised {type(e).__name__}: {e}', **extra)


def check_extremes(acc: Acc, ctx, sorted_vals, extra):
    from ..oracle.describe import to_val, val_str
    pos = [v for v in sorted_vals if v > 0]
    neg = [v for v in sorted_vals if v < 0]

    def q(name, fn, want):
        try:
            r = fn()
        except Exception as e:
            if want is None:
                acc.ok()
                return
            acc.bad(name, f'{name} raised {type(e).__name__}: {e}, expected {want}', **extra)
            return
        acc.ok()
        if want is None:
            return      # value undefined by the layout; anything goes
        rv = to_val(r)
        if rv[0] != 'fin' or r.as_rational() != want:
            acc.bad(name, f'{name} = {val_str(rv)}, expected {want}', **extra)

    if pos:
        q('maxval', lambda: ctx.maxval(), pos[-1])
        q('largest', lambda: ctx.largest(), pos[-1])
        q('minval', lambda: ctx.minval(), pos[0])
        # infval is the next value past the maximum: strictly larger, and not a member
        try:
            iv = ctx.infval()
            if not (iv.as_rational() > pos[-1]):
                acc.bad('infval', f'infval {iv.as_rational()} not above maxval {pos[-1]}', **extra)
            acc.ok()
        except Exception as e:
            acc.bad('infval', f'infval raised {type(e).__name__}: {e}', **extra)
    else:
        q('largest', lambda: ctx.largest(), Fraction(0))
    if neg:
        q('maxval(s)', lambda: ctx.maxval(True), neg[0])
        q('smallest', lambda: ctx.smallest(), neg[0])
        q('minval(s)', lambda: ctx.minval(True), neg[-1])
    else:
        q('smallest', lambda: ctx.smallest(), sorted_vals[0] if sorted_vals else Fraction(0))


def shard(i: int, n: int, tier: str, seed: int) -> Result:
    from ..gen import ctxs
    from fpy2.number import Float, RealFloat
    res = Result(PROP, tier, seed)
    fmts = _formats(tier)
    random.Random(777).shuffle(fmts)
    nfmt = 0
    patterns = 0
    for fam, text, spec, nbits in fmts[i::n]:
        try:
            ctx = ctxs.build(text)
        except Exception as e:
            res.count(f'ctor_rejected:{fam}')
            res.sample({'rejected': text, 'why': str(e)[:100]}, cap=3)
            continue
        nfmt += 1
        acc = Acc(res, fam, text)
        vals, has_nz, extra = check_encodable(acc, ctx, spec, nbits)
        patterns += 1 << nbits
        sv = sorted(vals)

        def mk(v, neg_zero=False, _ctx=ctx):
            if v == 0:
                return Float(s=neg_zero, c=0, exp=0, ctx=None)
            return Float(x=RealFloat.from_rational(v), ctx=None)
        # decode(encode(v)) == v for every member (incl. sign of zero)
        for v in sv:
            for nz in ((False, True) if (v == 0 and has_nz) else (False,)):
                x = mk(v, nz)
                try:
                    b = ctx.encode(x)
                    d = ctx.decode(b)
                    if d.is_nar() or d.as_rational() != v or (v == 0 and bool(d.s) != nz):
                        acc.bad('roundtrip', f'decode(encode({"-" if nz else ""}{v})) = {d}', **extra)
                    acc.ok()
                except Exception as e:
                    acc.bad('roundtrip', f'encode/decode of member {v} raised {type(e).__name__}: {e}', **extra)
        if fam != 'exp' or True:
            check_ordinals(acc, ctx, sv, extra, mk, closed=True, has_nz=has_nz)
        check_extremes(acc, ctx, sv, extra)
        # infinities
        if spec[0] == 'efloat':
            for s in (False, True):
                x = Float(s=s, isinf=True)
                try:
                    rep = ctx.representable_under(x)
                    if rep != spec[3]:
                        acc.bad('representable_under', f'infinity representable={rep}, format enable_inf={spec[3]}', **dict(extra, special='inf'))
                    acc.ok()
                    if spec[3]:
                        b = ctx.encode(x)
                        back = _nv(_decode(spec, b))
                        if back != ('inf', s):
                            acc.bad('encode', f'encode({"-" if s else "+"}inf) = {b:#b} which the layout reads as {back}', **dict(extra, special='inf'))
                        acc.ok()
                except Exception as e:
                    acc.bad('encode', f'infinity handling raised {type(e).__name__}: {e}', **dict(extra, special='inf'))
        res.evaluations += acc.n
        res.count(f'family:{fam}')
        if nfmt <= 2:
            res.sample({'format': text, 'patterns': 1 << nbits, 'finite_values': len(sv), 'values_head': [str(v) for v in sv[:8]]})

    # non-encodable ordinal families: window of consecutive members
    from ..oracle.describe import describe
    from ..gen import operands
    others = []
    quick = tier == 'quick'
    for p in range(1, 4 if quick else 6):
        for emin in ((-2, 1) if quick else (-3, -1, 0, 2)):
            others.append(('mps', f'MPSFloatContext({p}, {emin})'))
            others.append(('mpb', f'MPBFloatContext({p}, {emin}, RealFloat(m={(1 << p) - 1}, exp={emin + 2 - p + 1}))'))
    for nmin in ((-3, 0) if quick else (-3, -1, 0, 2)):
        others.append(('mpfixed', f'MPFixedContext({nmin})'))
        others.append(('mpbfixed', f'MPBFixedContext({nmin}, RealFloat(m=9, exp={nmin + 1}))'))
        others.append(('mpbfixed', f'MPBFixedContext({nmin}, RealFloat(m=9, exp={nmin + 1}), neg_maxval=RealFloat(m=-4, exp={nmin + 1}))'))
    for fam, text in others[i::n]:
        ctx = ctxs.build(text)
        fd = describe(ctx)
        mags = operands.representable_mags(fd, limit=120)
        if fd.pos_max is not None:
            posm = [m for m in mags if m <= fd.pos_max]
            negm = [m for m in mags if -m >= fd.neg_max]
        else:
            posm = negm = mags
        sv = sorted([-m for m in negm] + [Fraction(0)] + posm)
        acc = Acc(res, fam, text)

        def mk2(v, neg_zero=False):
            if v == 0:
                return Float(s=neg_zero, c=0, exp=0, ctx=None)
            return Float(x=RealFloat.from_rational(v), ctx=None)
        check_ordinals(acc, ctx, sv, {}, mk2, closed=fd.pos_max is not None, has_nz=fd.has_neg_zero)
        if fd.pos_max is not None:
            check_extremes(acc, ctx, sv, {})
        res.evaluations += acc.n
        res.count(f'family:{fam}')
        nfmt += 1

    # big formats vs the platform encodings
    if i == 0:
        _big(res, tier, seed)
    res.nontrivial = patterns + res.counters.get('big_patterns', 0)
    res.counters['formats'] = nfmt
    res.counters['patterns'] = patterns
    return res


def _big(res, tier, seed):
    import fpy2 as fp
    from fpy2.number import Float
    rng = random.Random(seed)
    try:
        import numpy as np
    except Exception:
        np = None
    acc = Acc(res, 'ieee', 'FP16/FP32/FP64')
    n16 = range(0, 1 << 16) if tier == 'thorough' else [rng.getrandbits(16) for _ in range(6000)] + list(range(0, 2048)) + list(range(0x7bf0, 0x7c10)) + list(range(0xfbf0, 0xfc10))
    if np is not None:
        for b in n16:
            f = float(np.array([b], dtype=np.uint16).view(np.float16)[0])
            d = fp.FP16.decode(b)
            if f != f:
                good = d.isnan
            elif f in (float('inf'), float('-inf')):
                good = d.isinf and d.s == (f < 0)
            else:
                good = (not d.is_nar()) and d.as_rational() == Fraction(f) and d.s == (struct.pack('>d', f)[0] >> 7 == 1)
            if not good:
                acc.bad('decode', f'FP16 pattern {b:#06x}: {d} vs numpy {f}')
            elif not d.isnan and fp.FP16.encode(d) != b:
                acc.bad('encode', f'FP16 encode(decode({b:#06x})) = {fp.FP16.encode(d):#06x}')
            acc.ok(2)
            res.count('big_patterns')
    cnt = 200000 if tier == 'thorough' else 8000
    for _ in range(cnt):
        for ctx, fmt, ifmt, w in ((fp.FP32, '>f', '>I', 32), (fp.FP64, '>d', '>Q', 64)):
            b = rng.getrandbits(w)
            if rng.random() < 0.2:
                b &= ~(((1 << 8) - 1) << (w - 9)) if w == 32 else ~(((1 << 11) - 1) << (w - 12))   # subnormals
            f = struct.unpack(fmt, struct.pack(ifmt, b))[0]
            d = ctx.decode(b)
            if f != f:
                good = d.isnan
            elif f in (float('inf'), float('-inf')):
                good = d.isinf and d.s == (f < 0)
            else:
                good = (not d.is_nar()) and d.as_rational() == Fraction(f) and bool(d.s) == bool(b >> (w - 1))
            if not good:
                acc.bad('decode', f'{w}-bit pattern {b:#x}: {d} vs struct {f}')
            elif not d.isnan and ctx.encode(d) != b:
                acc.bad('encode', f'{w}-bit encode(decode({b:#x})) = {ctx.encode(d):#x}')
            acc.ok(2)
            res.count('big_patterns')
    res.evaluations += acc.n


def main(tier: str) -> int:
    s = get_seed()
    res = Result(PROP, tier, s, rule=RULE)
    res.assumptions = ['layouts as implemented independently in vf/oracle/layout.py', 'numpy.float16 / struct as third witness for binary16/32/64']
    run_shards('vf.checks.c16', 16 if tier == 'quick' else 32, tier, s, timeout=600 if tier == 'quick' else 3000, res=res)
    res.exhaustive = True
    res.extra['exhaustive_scope'] = 'every bit pattern of every listed format (EFloat nbits<=8 quick/10 thorough, IEEE nbits<=10/12, Fixed/SMFixed/Exp nbits<=8/10); FP16 all patterns in thorough; FP32/FP64 sampled'
    return finish(res)


if __name__ == '__main__':
    shard_main(shard)
