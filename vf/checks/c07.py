"""
C07 -- simplify never changes what a program returns.

Differential monitor: generated programs (copies whose source is redefined,
constants folded under several active contexts, dead stores, list mutation
through aliases, helper calls) are run before and after `simplify` (all switch
combinations sampled), and before and after ConstFold / CopyPropagate /
DeadCodeEliminate alone and in every order.
"""
from __future__ import annotations

import itertools
import random

from ..common import Result, finish, run_shards, seed as get_seed, shard_main

PROP = 'C07'
RULE = ('one evaluation = one (program, transform configuration, input) comparison of original vs transformed result; '
        'non-trivial = comparisons where the transformed program text differs from the original')


def transforms(case, rng):
    import fpy2 as fp
    from fpy2.strategies import simplify
    from fpy2.transform import ConstFold, CopyPropagate, DeadCodeEliminate
    f = case.f
    out = [('simplify[all]', lambda: simplify(f))]
    switches = ['enable_const_fold', 'enable_const_fold_context', 'enable_const_fold_op', 'enable_copy_prop', 'enable_dead_code_elim']
    combos = list(itertools.product([True, False], repeat=5))
    for combo in rng.sample(combos, 4):
        kw = dict(zip(switches, combo))
        label = 'simplify[' + ''.join('1' if c else '0' for c in combo) + ']'
        out.append((label, lambda kw=kw: simplify(f, **kw)))
    passes = {
        'CF': lambda a: ConstFold.apply(a),
        'CP': lambda a: CopyPropagate.apply(a),
        'DCE': lambda a: DeadCodeEliminate.apply(a),
    }
    for name, fn in passes.items():
        out.append((f'pass[{name}]', lambda fn=fn: f.with_ast(fn(f.ast))))
    order = rng.choice(list(itertools.permutations(passes)))

    def chain(order=order):
        a = f.ast
        for nm in order:
            a = passes[nm](a)
        return f.with_ast(a)
    out.append((f'order[{">".join(order)}]', chain))
    return out


def shard(i: int, n: int, tier: str, seed: int) -> Result:
    from ..diff import run_differential
    from ..gen import prog
    import fpy2 as fp
    res = Result(PROP, tier, seed)
    rng = random.Random(seed * 611953 + i)
    total = 6000 if tier == "quick" else 60000
    XOPS = ('cbrt', 'roundint', 'nearbyint', 'fabs', 'copysign', 'fdim', 'fmod', 'remainder', 'hypot', 'fmin', 'fmax', 'mod', 'powop', 'pow',
            'nan', 'inf', 'round_exact', 'fst', 'snd', 'logb', 'round_at')
    prof = prog.profile(extra_ops=XOPS, extra_prob=0.12, preds=('isnan', 'isinf', 'isfinite', 'signbit', 'isnormal'), pred_prob=0.12,
                        mutate_via_alias_prob=0.4, w_tuplelist=1.2, const_list_prob=0.3, return_in_arm_prob=0.2, w_copy=3, w_const=3, w_assign=5, w_alias=1.5, w_index_assign=2.5, w_if=3, w_for=3, w_with=3.5,
                        args=lambda r: r.choice([('R', 'R', 'L'), ('R', 'L'), ('R', 'R'), ('R', 'B', 'L'), ('L', 'L', 'R'), ('R', 'I', 'L'), ('I', 'R', 'R')]))
    run_differential(res, PROP, rng, total // n, prof, transforms, ninputs=6,
                     ctx_choices=(None, None, fp.FP32, fp.MPFloatContext(4)), tag='c07')
    return res


def main(tier: str) -> int:
    s = get_seed()
    res = Result(PROP, tier, s, rule=RULE)
    res.assumptions = ['oracle: the original program\'s own result on the same deep-copied arguments; inputs on which the original raises are skipped',
                       'structural comparison: sign of zero, NaN, infinities, bool vs number, list vs tuple, lengths']
    run_shards('vf.checks.c07', 16 if tier == 'quick' else 64, tier, s, timeout=1200 if tier == 'quick' else 3400, res=res)
    v, c = res.counters.get('variants', 0), res.counters.get('variants_changed', 0)
    res.extra['changed_fraction'] = round(c / v, 3) if v else 0
    if v and c < 0.3 * v and not res.violations:
        res.inconclusive.append(f'only {c} of {v} transformed variants differed textually from the original (monitor watched little change)')
    return finish(res)


if __name__ == '__main__':
    shard_main(shard)
