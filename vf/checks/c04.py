"""
C04 -- programs evaluate by the documented context-scoped semantics.

Differential monitor at Function.__call__: generated source programs are
decorated by the real @fp.fpy and called; the same text is interpreted by the
reference evaluator vf/oracle/refsem.py (written from the language reference,
over the Python ast, arithmetic by the exact-rational oracle + independent
rounding oracle).  Outcomes are compared structurally (sign of zero, NaN,
infinities, bool vs number, list vs tuple, lengths); where the reference is
stuck (failed assert, strict index / slice / zip, cast, ASSERT overflow) the
implementation has to raise.
"""
from __future__ import annotations

import copy
import random
from fractions import Fraction

from ..common import Result, finish, run_shards, seed as get_seed, shard_main

PROP = 'C04'
RULE = ('one evaluation = one (program, argument tuple, caller context) pair on which implementation and reference evaluator were compared; '
        'non-trivial = pairs whose program rounds under at least two different contexts or calls a helper, and on which the reference returned a value')

XOPS = ('cbrt', 'roundint', 'nearbyint', 'fabs', 'copysign', 'fdim', 'fmod', 'remainder', 'hypot', 'fmin', 'fmax', 'mod', 'powop', 'pow',
        'nan', 'inf', 'round_exact', 'fst', 'snd')
XPREDS = ('isnan', 'isinf', 'isfinite', 'signbit')

PROFILES = [
    dict(),
    dict(helpers=3, helper_ctx_prob=0.6, helper_chain=True, w_call=3, mutate_helper_prob=0.5),
    dict(w_with=6, computed_ctx_prob=0.3, as_alias_prob=0.3, w_early_return=2.5, w_for=4, w_while=2, max_depth=4, return_in_arm_prob=0.25),
    dict(w_alias=3, w_index_assign=4, w_listdef=3, const_list_prob=0.2, w_tuple=2, nested_lists=True, w_for=4, comp_iter_ifexpr_prob=0.5, w_tuplelist=1, reduce_prob=0.15, comp_target_shadows_prob=0.3),
    dict(w_const=3, w_freevar=1.5, w_copy=2, w_aug=3, expr_depth=4),
    # the remaining numeric builtins and predicates of the parser tables (every one is E-Op / E-Pred in derived-semantics.rst)
    dict(extra_ops=XOPS, extra_prob=0.35, preds=XPREDS, pred_prob=0.3),
    dict(extra_ops=XOPS, extra_prob=0.25, preds=XPREDS, pred_prob=0.2, w_with=5, helpers=2, w_call=2),
]
ARGS = [('R', 'R', 'L'), ('R', 'L'), ('R', 'R'), ('R', 'B', 'L'), ('L', 'L', 'R'), ('R', 'I', 'L'), ('I', 'R', 'R'), ('R', 'T', 'L'), ('R', 'LL')]


# directed corner programs (run by shard 0 on every argument / caller combination below)
DIRECTED = [
    'return (--0.0, -0.0, ---0.0, -(-0.0), - -0, +x1, -(0 * x1))',
    'return (-1e3, -2.5, -7, -7.0, -0.001, - 1e3, -(1e3), -(-100), --7, -(-2.5), - - -9)',
    'with C3:\n        with fp.MPFloatContext(9 + 2):\n            v = x1 / 3\n        w = x1 / 3\n    return (v, w, x1 / 3)',
    'with fp.INTEGER:\n        with fp.MPFloatContext(2.5 * 2 + 6) as c:\n            v = x1 / 3\n        w = x1 / 3\n    return (v, w)',
    'with C3:\n        with (fp.MPFloatContext(9 + 2) if x1 > 0 else fp.MPFloatContext(13 - 2, fp.RM.RTZ)):\n            v = x1 / 3\n        w = x1 / 3\n    return (v, w)',
    'cs = [fp.FP16, fp.MPFloatContext(9 + 2), fp.MPFloatContext(5)]\n    with C3:\n        with cs[(9 + 2) - 10]:\n            v = x1 / 3\n        with (cs[2] if x2 > x1 else cs[0]) as c:\n            w = x2 / 3\n    return (v, w)',
    'with F8:\n        if x1 > 0:\n            return x1 / 3\n        v = x1 * 3\n    return v / 7',
    'for i in range(3):\n        with S4:\n            if x1 > i:\n                return (x1 / 3, i)\n    return (x1 / 3, -1)',
    'ys = [x1, x2]\n    zs = ys\n    zs[0] = x2 / 3\n    ws = ys[0:2]\n    ws[1] = 7\n    return (ys, zs, ws)',
    'ys = [x1, x2, 3]\n    return (ys[1:], ys[:2], ys[0:0], ys[3:], sum([]), sum([x1]), sum(ys), min(ys), max(ys))',
    'return (min(x1, x2), max(x1, x2), min(x2, x1), max(x2, x1), min(0, -0.0), max(-0.0, 0), min(x1, 0, x2), max(x1, -0.0, x2))',
    'return (x1 < x2 < 3, x1 == x2, x1 != x2, x1 <= x2 >= x1, not (x1 < x2), x1 < x2 or x2 < x1, x1 < x2 and x2 < 10)',
    'with C3:\n        a = [e * 3 for e in [x1, x2, 0.1]]\n    with MF:\n        b = [e / 3 for e in a]\n    return (a, b, [i + e for i, e in enumerate(a)], [p * q for p, q in zip(a, b)])',
    'ys = [1, 2, 3]\n    t = 0\n    for e in ys:\n        ys[2] = 10\n        t = t + e\n    for i, e in enumerate(ys):\n        ys[2] = 20\n        t = t + e\n    return (t, ys)',
    'v = fp.fma(x1, x2, 0.1)\n    with FX:\n        w = fp.fma(x1, x2, 0.1)\n        u = abs(x1) + fp.floor(x2) - fp.ceil(x1) * fp.trunc(x2)\n    return (v, w, u, fp.sqrt(fp.round(abs(x1))))',
    'k = 0\n    while k < 5 and x1 > k:\n        with fp.INTEGER:\n            k = k + 1\n        x1 -= 0.5\n    return (k, x1)',
    'a, (b, c) = (x1, (x2, 3))\n    t = (a, b)\n    p, q = t\n    return ((p, q), c, [t == (x1, x2)])',
    'assert x1 == x1\n    return [x1][0] / [x2, 7][1]',
    'with fp.FP16:\n        v = h9(x1)\n    with fp.REAL:\n        w = h9(x2)\n    return (v, w, h8(x1), h9(x1))',
]
DIRECTED_HEADER = '''
@fp.fpy(ctx=F8)
def h8(z):
    return z / 3

@fp.fpy
def h9(z):
    return z / 3 + h8(z)

'''


def directed_sources():
    from ..gen import prog as genprog
    out = []
    for body in DIRECTED:
        out.append(genprog.HEADER + DIRECTED_HEADER + '@fp.fpy\ndef f(x1, x2):\n    ' + body + '\n')
    return out


def compare(res, fp, genrun, refsem, src_shown, mod, ref, args, ctx, rich, amb, tag=None):
    """one (program, args, caller context) comparison; returns False when a violation was recorded"""
    try:
        out = genrun.guarded(lambda: ref.run('f', copy.deepcopy(args), ctx), timeout=10.0)
        if out[0] == 'timeout':
            res.count('ref_timeout')
            return True
        if out[0] == 'exc':
            raise out[1]
        e = out[1]
    except refsem.Ambiguous as a:
        res.count('ref_open')
        key = str(a)[:60]
        amb[key] = amb.get(key, 0) + 1
        return True
    except refsem.Budget:
        res.count('ref_budget')
        return True
    except RecursionError:
        res.count('ref_recursion')
        return True
    r = genrun.call(mod.f, args, ctx=ctx, timeout=8.0)
    if r[0] == 'timeout':
        res.count('impl_timeout')
        return True
    if r[0] == 'exc' and r[1] == 'NotImplementedError':
        # the engines do not offer the operation for these operands (e.g. sqrt under REAL)
        res.count('impl_not_offered')
        return True
    res.evaluations += 1
    if e[0] == 'ok' and r[0] == 'ok' and e[1] == r[1]:
        res.nontrivial += rich
        res.count('agree_value')
        return True
    if e[0] == 'stuck' and r[0] == 'exc':
        res.count('agree_stuck:' + e[1])
        return True
    if e[0] == 'ok' and r[0] == 'ok':
        problem, kind = 'implementation returns a different value than the documented semantics', 'value'
    elif e[0] == 'stuck':
        problem, kind = f'evaluation is stuck in the documented semantics ({e[1]}) but the implementation returns a value', 'missing_error:' + e[1]
    else:
        problem, kind = f'implementation raises {r[1]} where the documented semantics gives a value', 'raises'
    res.violate({'property': PROP, 'problem': problem, 'args': repr(args), 'ctx': repr(ctx),
                 'reference': genrun.show(e[1]) if e[0] == 'ok' else f'stuck: {e[1]}',
                 'implementation': genrun.show(r[1]) if r[0] == 'ok' else f'raised {r[1]}: {r[2]}',
                 'source': src_shown, 'directed': tag,
                 'mechanism': {'kind': kind, 'exception': r[1] if r[0] == 'exc' else None, 'directed': tag}})
    return False


WIDE = [2 ** 53 + 1, -(2 ** 63 + 5), 10 ** 22 + 1, 2 ** 70, Fraction(1, 3), Fraction(2 ** 60 + 1, 1024), Fraction(-7, 10), 3 ** 40]


def widen(rng, a, p=0.12):
    if isinstance(a, list):
        return [widen(rng, x, p) for x in a]
    if isinstance(a, tuple):
        return tuple(widen(rng, x, p) for x in a)
    if isinstance(a, bool) or not isinstance(a, (int, float)):
        return a
    return rng.choice(WIDE) if rng.random() < p else a


def shard(i: int, n: int, tier: str, seed: int) -> Result:
    import fpy2 as fp
    from ..gen import prog as genprog, run as genrun
    from ..oracle import refsem

    res = Result(PROP, tier, seed)
    rng = random.Random(seed * 424243 + i)
    quick = tier == 'quick'
    nprog = (8000 if quick else 60000) // n
    ninputs = 6 if quick else 10
    callers = [None, None, fp.FP32, fp.MPFloatContext(5), fp.REAL, fp.FixedContext(True, -3, 12, fp.RM.RTZ, fp.OV.SATURATE), fp.IEEEContext(4, 8, fp.RM.RTN),
               fp.MPSFloatContext(3, -4, fp.RM.RAZ)]
    ops_seen: dict = {}
    amb: dict = {}
    with genrun.Scratch(prefix='vf-c04-') as work:
        # ---- directed corner programs: spread over the shards, all argument pairs x callers -------
        pool = [0.0, -0.0, 1.0, -2.5, 0.1, 7.0, 1e10, float('inf'), float('-inf'), float('nan'), 3, 0.3333333333333333, 1e-3, 100.0]
        for di, src in enumerate(directed_sources()):
            if di % n != i:
                continue
            try:
                mod = genprog.load_module(src, work, 'c04d')
                ref = refsem.RefEval(src, fp)
            except Exception as e:
                res.count(f'directed_rejected:{type(e).__name__}')
                res.extra.setdefault('directed_errors', []).append(f'{di}: {type(e).__name__}: {str(e)[:200]}')
                continue
            res.count('directed_programs')
            shown = src[src.find('def f('):]
            for a in pool:
                for b in (pool if not quick else rng.sample(pool, 6)):
                    for ctx in callers[1:]:
                        if not compare(res, fp, genrun, refsem, shown, mod, ref, [a, b], ctx, True, amb, tag=di):
                            break
            for k2, v in ref.ops_seen.items():
                ops_seen[k2] = ops_seen.get(k2, 0) + v
            genprog.unload(mod)
        # ---- generated programs -----------------------------------------------------------------
        for pi in range(nprog):
            if len(res.violations) >= 25:
                res.count('stopped_early_violations')
                break
            kw = dict(rng.choice(PROFILES))
            kw['args'] = rng.choice(ARGS)
            prof = genprog.profile(**kw)
            g = genprog.Gen(rng, prof)
            try:
                p = g.program()
            except Exception:
                res.count('generator_error')
                continue
            try:
                mod = genprog.load_module(p.source, work, 'c04')
            except Exception as e:
                res.count(f'rejected:{type(e).__name__}')
                continue
            try:
                ref = refsem.RefEval(p.source, fp)
            except refsem.Ambiguous as a:
                res.count('ref_module_unsupported')
                amb[str(a)[:60]] = amb.get(str(a)[:60], 0) + 1
                genprog.unload(mod)
                continue
            res.count('programs')
            rich = len({ln.strip() for ln in p.source.splitlines() if ln.strip().startswith('with ')}) >= 2 or bool(p.helper_names)
            shown = p.source[p.source.find('K3 = 3') + 7:]
            for k in range(ninputs):
                args = genprog.gen_args(rng, p)
                # arguments are never rounded on entry: values no binary64 holds (wide ints, thirds, 61-bit dyadics), scalars and elements
                args = [a if t == 'I' else widen(rng, a) for a, t in zip(args, p.arg_types)]
                ctx = rng.choice(callers)
                if not compare(res, fp, genrun, refsem, shown, mod, ref, args, ctx, rich, amb):
                    break
            for k2, v in ref.ops_seen.items():
                ops_seen[k2] = ops_seen.get(k2, 0) + v
            if pi < 1:
                res.sample({'program': shown[:800]})
            for f in p.features:
                res.extra.setdefault('features', {})
                res.extra['features'][f] = res.extra['features'].get(f, 0) + 1
            genprog.unload(mod)
    res.extra['ops_seen'] = ops_seen
    res.extra['reference_open'] = amb
    return res


def main(tier: str) -> int:
    s = get_seed()
    res = Result(PROP, tier, s, rule=RULE)
    res.assumptions = ['the reference evaluator vf/oracle/refsem.py is the specification; where it leaves a result open (sign of an exact zero sum under RTN, '
                       'several admissible overflow results, irrational result under REAL) the run is counted and not compared',
                       'NotImplementedError of the implementation (operation not offered for these operands) is counted, not judged',
                       'a negated zero / integer literal is a literal (parser comment); every other unary minus is the rounded operator Neg']
    run_shards('vf.checks.c04', 16 if tier == 'quick' else 48, tier, s, timeout=1500 if tier == 'quick' else 3400, res=res)
    c = res.counters
    if not res.violations:
        ops = res.extra.get('ops_seen', {})
        need = ['add', 'sub', 'mul', 'div', 'neg', 'abs', 'sqrt', 'fma', 'round', 'floor', 'ceil', 'trunc', 'sum', 'min', 'max',
                'cmpLt', 'cmpLtE', 'cmpGt', 'cmpGtE', 'cmpEq', 'cmpNotEq',
                'cbrt', 'roundint', 'nearbyint', 'copysign', 'fdim', 'fmod', 'remainder', 'mod', 'hypot', 'pow', 'const_nan', 'const_inf',
                'isnan', 'isinf', 'isfinite', 'signbit', 'fst_snd', 'cast']
        missing = [o for o in need if ops.get(o, 0) < 20]
        if missing:
            res.inconclusive.append(f'operators observed fewer than 20 times: {missing}')
        if c.get('agree_value', 0) < 1000:
            res.inconclusive.append(f"only {c.get('agree_value', 0)} value comparisons")
    return finish(res)


if __name__ == '__main__':
    shard_main(shard)
