"""
C02 -- arithmetic rounds the exact result exactly once.

Operands come from a source format that is *wider* than the target context, so
exact results fall within one sticky bit of the target's breakpoints
systematically (double-rounding witnesses).  Every fpy2.ops call is observed by
the OpsMonitor post-condition (exact Fraction result + independent rounding
oracle).
"""
from __future__ import annotations

import math
import random
from fractions import Fraction

from ..common import Result, finish, run_shards, seed as get_seed, shard_main

PROP = 'C02'
RULE = ('one evaluation = one monitored fpy2.ops call compared with "exact result rounded once" (value, sign of zero, '
        'inexact/overflow/invalid/divzero flags); non-trivial = distinct (op, context, operand values) whose exact result '
        'is not representable in the target (inexact, overflowing or irrational)')


def source_values(tier, rng):
    from fpy2.number import Float, RealFloat
    quick = tier == 'quick'
    vals = []
    cs = (1, 2, 3, 5, 7) if quick else (1, 2, 3, 5, 6, 7, 9, 11, 13, 15)
    exps = (-4, -2, -1, 0, 2) if quick else (-5, -4, -3, -2, -1, 0, 1, 2, 3)
    for c in cs:
        for e in exps:
            for s in (False, True):
                vals.append(Float(s=s, c=c, exp=e))
    vals += [Float(c=0, exp=0), Float(s=True, c=0, exp=0), Float(isinf=True), Float(s=True, isinf=True),
             Float(isnan=True), 3, -2, 0, 0.75, -0.0, 1e3, Fraction(1, 3), Fraction(-7, 5), Fraction(5, 8),
             Float(c=(1 << 40) + 1, exp=-38), Float(s=True, c=(1 << 70) | 1, exp=-72)]
    return vals


def target_contexts(tier):
    quick = tier == 'quick'
    modes = ['RNE', 'RNA', 'RTP', 'RTN', 'RTZ', 'RAZ', 'RTO', 'RTE']
    fmts = [
        'MPFloatContext(1, RM.{rm})', 'MPFloatContext(2, RM.{rm})', 'MPFloatContext(3, RM.{rm})',
        'MPSFloatContext(2, -1, RM.{rm})', 'MPSFloatContext(3, 0, RM.{rm})',
        'MPBFloatContext(2, -1, RealFloat(m=3, exp=1), RM.{rm})',
        'MPBFloatContext(3, -2, RealFloat(m=7, exp=0), RM.{rm}, OV.SATURATE)',
        'IEEEContext(2, 4, RM.{rm})', 'IEEEContext(3, 6, RM.{rm})',
        'EFloatContext(2, 5, False, EFloatNanKind.MAX_VAL, 0, RM.{rm})',
        'EFloatContext(3, 5, True, EFloatNanKind.NEG_ZERO, -1, RM.{rm})',
        'MPFixedContext(-2, RM.{rm})', 'MPFixedContext(0, RM.{rm}, enable_nan=True, enable_inf=True)',
        'FixedContext(True, -1, 5, RM.{rm}, OV.SATURATE)', 'FixedContext(True, 0, 4, RM.{rm}, OV.WRAP)',
        'SMFixedContext(-1, 4, RM.{rm}, OV.SATURATE)',
    ]
    if not quick:
        fmts += ['MPFloatContext(5, RM.{rm})', 'IEEEContext(4, 8, RM.{rm})', 'IEEEContext(5, 16, RM.{rm})',
                 'IEEEContext(8, 32, RM.{rm})', 'IEEEContext(11, 64, RM.{rm})', 'MPSFloatContext(1, 1, RM.{rm})',
                 'EFloatContext(4, 8, False, EFloatNanKind.MAX_VAL, 0, RM.{rm})',
                 'EFloatContext(0, 4, False, EFloatNanKind.NONE, 1, RM.{rm})',
                 'FixedContext(False, -2, 6, RM.{rm}, OV.OVERFLOW)', 'MPBFixedContext(-1, RealFloat(m=9, exp=0), RM.{rm}, OV.SATURATE)']
    out = [t.format(rm=rm) for t in fmts for rm in modes]
    out.append('REAL')
    return out


BIN = ['add', 'sub', 'mul', 'div', 'copysign', 'fdim', 'hypot', 'fmod', 'remainder', 'mod']
UN = ['neg', 'fabs', 'sqrt', 'cbrt', 'ceil', 'floor', 'trunc', 'roundint', 'nearbyint']


def shard(i: int, n: int, tier: str, seed: int) -> Result:
    from ..gen import ctxs
    from ..monitors.opsmon import OpsMonitor
    from ..monitors.roundmon import RoundMonitor
    import fpy2 as fp
    res = Result(PROP, tier, seed)
    rng = random.Random(seed * 31337 + i)
    mon = OpsMonitor().install()
    rmon = RoundMonitor().install() if tier == 'thorough' else None
    from fpy2 import ops
    vals = source_values(tier, rng)
    targets = target_contexts(tier)
    random.Random(99).shuffle(targets)
    quick = tier == 'quick'
    nctx = 0
    for text in targets[i::n]:
        ctx = ctxs.build(text)
        mon.tag = text
        if rmon:
            rmon.current_tag = text
        nctx += 1
        for a in vals:
            for name in UN:
                try:
                    getattr(ops, name)(a, ctx=ctx)
                except Exception:
                    pass
            for e in (0, 1, 2, 3, -1, -2):
                try:
                    ops.pow(a, e, ctx=ctx)
                except Exception:
                    pass
        pairs = [(a, b) for a in vals for b in vals]
        if quick:
            pairs = rng.sample(pairs, min(len(pairs), 3000))
        for (a, b) in pairs:
            for name in BIN:
                try:
                    getattr(ops, name)(a, b, ctx=ctx)
                except Exception:
                    pass
        for _ in range(600 if quick else 6000):
            a, b, c = rng.choice(vals), rng.choice(vals), rng.choice(vals)
            try:
                ops.fma(a, b, c, ctx=ctx)
            except Exception:
                pass
            # cancellation-heavy fma: c = -(a*b) perturbed
            try:
                p = fp.REAL.round(a) * fp.REAL.round(b) if not isinstance(a, Fraction) and not isinstance(b, Fraction) else None
                if p is not None and not p.is_nar():
                    ops.fma(a, b, -p, ctx=ctx)
            except Exception:
                pass
        if nctx <= 2 and i == 0:
            res.sample({'context': text, 'operand_values': len(vals), 'pairs': len(pairs), 'binary_ops': BIN, 'unary_ops': UN})
    mon.uninstall()
    snap = mon.snapshot()
    res.evaluations = snap['checked']
    res.nontrivial = snap['nontrivial']
    res.counters.update({f'op:{k}': v for k, v in snap['by_op'].items()})
    res.counters.update({f'skipped:{k}': v for k, v in snap['skipped'].items()})
    res.counters['contexts'] = nctx
    for w in mon.violations:
        res.violate(w)
    if rmon:
        rmon.uninstall()
        res.counters['round_monitor_checked'] = rmon.checked
        for w in rmon.violations:
            w = dict(w)
            w['property'] = PROP
            w['via'] = 'RoundMonitor on the intermediate round-to-odd value'
            w['mechanism'] = dict(w.get('mechanism', {}), via='roundmon')
            res.violate(w)
    return res


def main(tier: str) -> int:
    s = get_seed()
    res = Result(PROP, tier, s, rule=RULE)
    res.assumptions = ['exact results by Fraction arithmetic; roots by integer power comparison; rounding by vf/oracle/rnd.py',
                       'sign of an exact-cancellation zero under RTN and of a zero result of Python-style mod left open',
                       'NotImplementedError accepted for non-dyadic operands and under REAL']
    run_shards('vf.checks.c02', 16 if tier == 'quick' else 48, tier, s, timeout=900 if tier == 'quick' else 3600, res=res)
    return finish(res)


if __name__ == '__main__':
    shard_main(shard)
