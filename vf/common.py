"""
Shared plumbing for every check: tier/seed handling, three-valued verdicts,
evidence files, replay files, known findings, sharded sub-process runner.

Nothing here imports fpy2.
"""
from __future__ import annotations

import json
import os
import subprocess
import sys
import time
import traceback
from dataclasses import dataclass, field
from pathlib import Path
from typing import Any, Callable, Iterable

ROOT = Path(__file__).resolve().parent.parent          # /verif (checkout relative)
EVIDENCE_DIR = ROOT / 'evidence'
REPLAY_DIR = ROOT / 'replays'
FINDINGS_FILE = ROOT / 'known_findings.json'
PY = os.environ.get('VERIF_PYTHON', '/venv/bin/python')
REPO = os.environ.get('VERIF_REPO', '/repo')
NCPU = int(os.environ.get('VERIF_JOBS', str(os.cpu_count() or 4)))

EXIT_HELD = 0
EXIT_VIOLATED = 1
EXIT_INCONCLUSIVE = 2


def seed() -> int:
    try:
        return int(os.environ.get('VERIF_SEED', '0'))
    except ValueError:
        return 0


def child_env() -> dict[str, str]:
    env = dict(os.environ)
    env['PYTHONHASHSEED'] = '0'
    env['PYTHONPATH'] = f'{ROOT}:{REPO}' + (':' + env['PYTHONPATH'] if env.get('PYTHONPATH') else '')
    env.setdefault('PYTHONDONTWRITEBYTECODE', '1')
    return env


# ---------------------------------------------------------------------------
# Known findings
# ---------------------------------------------------------------------------

_FINDINGS: list[dict] | None = None


def load_findings() -> list[dict]:
    global _FINDINGS
    if _FINDINGS is None:
        if not FINDINGS_FILE.exists():
            _FINDINGS = []
        else:
            _FINDINGS = json.loads(FINDINGS_FILE.read_text()).get('findings', [])
    return _FINDINGS


def match_finding(prop: str, witness: dict) -> dict | None:
    """
    A violation witness matches a *known* (not fixed) finding when every key of
    the finding's `match` dict is present in the witness's `mechanism` dict
    with an equal value (lists in the finding mean "one of").
    """
    mech = witness.get('mechanism', {})
    for f in load_findings():
        if f.get('property') != prop or f.get('status') != 'known':
            continue
        ok = True
        for k, v in f.get('match', {}).items():
            w = mech.get(k, None)
            if isinstance(v, list):
                if w not in v:
                    ok = False
                    break
            elif w != v:
                ok = False
                break
        if ok:
            return f
    return None


# ---------------------------------------------------------------------------
# Result accumulation
# ---------------------------------------------------------------------------

@dataclass
class Result:
    prop: str
    tier: str
    seed: int
    level: str = 'exploration'
    evaluations: int = 0
    nontrivial: int = 0
    rule: str = ''
    samples: list = field(default_factory=list)
    counters: dict = field(default_factory=dict)
    violations: list = field(default_factory=list)      # witness dicts
    inconclusive: list = field(default_factory=list)    # reasons
    assumptions: list = field(default_factory=list)
    exhaustive: bool = False
    extra: dict = field(default_factory=dict)
    known: dict = field(default_factory=dict)           # known-finding id -> witnesses this run
    t0: float = field(default_factory=time.time)

    def count(self, key: str, n: int = 1):
        self.counters[key] = self.counters.get(key, 0) + n

    def sample(self, s: Any, cap: int = 12):
        if len(self.samples) < cap:
            self.samples.append(s)

    def violate(self, witness: dict, cap: int = 200):
        # a witness of a recorded (not repaired) finding never uses up the
        # room kept for new violations
        f = match_finding(self.prop, witness)
        if f is not None:
            fid = f.get('id', '?')
            self.known[fid] = self.known.get(fid, 0) + 1
            return
        # at most 12 witnesses per distinct mechanism, so that one frequent
        # defect does not use up the room and mask a different one
        if self._room(witness, cap):
            self.violations.append(witness)
        self.count('violations_total')

    def _room(self, witness: dict, cap: int = 200) -> bool:
        if len(self.violations) >= cap:
            return False
        key = json.dumps(witness.get('mechanism'), sort_keys=True, default=str)
        per = self.__dict__.setdefault('_per_mech', {})
        per[key] = per.get(key, 0) + 1
        return per[key] <= 12

    def merge(self, other: dict):
        """Merge the JSON dict produced by a shard (`Result.to_shard()`)."""
        self.evaluations += other.get('evaluations', 0)
        self.nontrivial += other.get('nontrivial', 0)
        for k, v in other.get('counters', {}).items():
            if isinstance(v, (int, float)):
                self.counters[k] = self.counters.get(k, 0) + v
        for s in other.get('samples', []):
            self.sample(s)
        for v in other.get('violations', []):
            if self._room(v):
                self.violations.append(v)
        for r in other.get('inconclusive', []):
            self.inconclusive.append(r)
        for k, v in other.get('known', {}).items():
            self.known[k] = self.known.get(k, 0) + v
        for k, v in other.get('extra', {}).items():
            if isinstance(v, list):
                cur = self.extra.setdefault(k, [])
                for item in v:
                    if item not in cur and len(cur) < 400:
                        cur.append(item)
            elif isinstance(v, dict):
                cur = self.extra.setdefault(k, {})
                for kk, vv in v.items():
                    if isinstance(vv, (int, float)):
                        cur[kk] = cur.get(kk, 0) + vv
                    else:
                        cur[kk] = vv
            elif isinstance(v, (int, float)) and not isinstance(v, bool):
                self.extra[k] = self.extra.get(k, 0) + v
            else:
                self.extra[k] = v

    def to_shard(self) -> dict:
        return {
            'evaluations': self.evaluations,
            'nontrivial': self.nontrivial,
            'counters': self.counters,
            'samples': self.samples,
            'violations': self.violations,
            'inconclusive': self.inconclusive,
            'extra': self.extra,
            'known': self.known,
        }


def _jsonable(o):
    try:
        json.dumps(o)
        return o
    except TypeError:
        if isinstance(o, dict):
            return {str(k): _jsonable(v) for k, v in o.items()}
        if isinstance(o, (list, tuple, set)):
            return [_jsonable(v) for v in o]
        return repr(o)


def finish(res: Result, min_nontrivial: int = 2) -> int:
    """
    Writes replays + the evidence file, prints the verdict lines, returns the
    exit code.  Violations matching a known finding are reported as
    KNOWN-FINDING and do not fail the run.
    """
    EVIDENCE_DIR.mkdir(exist_ok=True)
    new_violations = []
    known_hits: dict[str, tuple[dict, int]] = {}
    by_id = {f.get('id'): f for f in load_findings()}
    for fid, cnt in res.known.items():
        known_hits[fid] = (by_id.get(fid, {'id': fid}), cnt)
    for w in res.violations:
        f = match_finding(res.prop, w)
        if f is None:
            new_violations.append(w)
        else:
            fid = f.get('id', '?')
            prev = known_hits.get(fid)
            known_hits[fid] = (f, (prev[1] if prev else 0) + 1)

    for fid, (f, n) in sorted(known_hits.items()):
        print(f'KNOWN-FINDING: property={res.prop} {fid}: {f.get("what", "")} ({n} witnesses this run)')

    replay_paths = []
    d = REPLAY_DIR / res.prop
    if d.exists():
        for old in d.glob(f'{res.tier}-seed{res.seed}-*.json'):
            try:
                old.unlink()
            except OSError:
                pass
    if new_violations:
        d.mkdir(parents=True, exist_ok=True)
        # replay files: every distinct mechanism first, then the rest, 40 at most
        seen, firsts, rest = set(), [], []
        for w in new_violations:
            k = json.dumps(w.get('mechanism'), sort_keys=True, default=str)
            (rest if k in seen else firsts).append(w)
            seen.add(k)
        for i, w in enumerate((firsts + rest)[:40]):
            p = d / f'{res.tier}-seed{res.seed}-{i}.json'
            p.write_text(json.dumps(_jsonable(w), indent=1, default=repr))
            replay_paths.append(p)

    wall = time.time() - res.t0
    coverage = {
        'evaluations': int(res.evaluations),
        'distinct_nontrivial': int(res.nontrivial),
        'rule': res.rule,
        'samples': _jsonable(res.samples) or ['<none>'],
        'exhaustive': bool(res.exhaustive),
        'counters': _jsonable(res.counters),
        'known_finding_hits': {k: v[1] for k, v in known_hits.items()},
        'inconclusive_reasons': res.inconclusive[:20],
    }
    coverage.update(_jsonable(res.extra))
    ev = {
        'property_id': res.prop,
        'tier': res.tier,
        'seed': res.seed,
        'level': res.level,
        'coverage': coverage,
        'assumptions': res.assumptions,
        'wall_s': round(wall, 2),
        'violations': len(new_violations),
    }
    (EVIDENCE_DIR / f'{res.prop}.json').write_text(json.dumps(ev, indent=1, default=repr))

    if new_violations:
        for p in replay_paths[:5]:
            print(f'VIOLATION property={res.prop} replay={p}')
        w = new_violations[0]
        print('first witness:', json.dumps(_jsonable(w), default=repr)[:1500])
        print(f'{res.prop}: VIOLATED ({len(new_violations)} new witnesses; '
              f'{res.evaluations} evaluations, {wall:.1f}s)')
        return EXIT_VIOLATED
    if res.inconclusive or res.evaluations < 1 or res.nontrivial < min_nontrivial:
        reasons = res.inconclusive or [f'too few observations: evaluations={res.evaluations} nontrivial={res.nontrivial}']
        print(f'{res.prop}: INCONCLUSIVE: ' + '; '.join(str(r) for r in reasons[:5]))
        return EXIT_INCONCLUSIVE
    print(f'{res.prop}: held on {res.evaluations} evaluations ({res.nontrivial} distinct non-trivial), '
          f'tier={res.tier} seed={res.seed} wall={wall:.1f}s')
    return EXIT_HELD


# ---------------------------------------------------------------------------
# Sharded runner
# ---------------------------------------------------------------------------

def run_shards(module: str, nshards: int, tier: str, seed_: int, timeout: float,
               res: Result, extra_args: list[str] | None = None, jobs: int | None = None):
    """
    Runs `python -m <module> --shard i/n --tier .. --seed ..` for every i with
    at most `jobs` concurrent processes.  Each shard prints one JSON document
    on its last stdout line starting with `@@SHARD `.  A shard that times out
    or dies makes the run inconclusive (never a violation).
    """
    jobs = jobs or NCPU
    env = child_env()
    pending = list(range(nshards))
    running: list[tuple[int, subprocess.Popen, float, Any, Any]] = []
    import tempfile
    outdir = Path(tempfile.mkdtemp(prefix='vf-shards-'))
    try:
        while pending or running:
            while pending and len(running) < jobs:
                i = pending.pop(0)
                out = open(outdir / f'{i}.out', 'w+')
                err = open(outdir / f'{i}.err', 'w+')
                cmd = [PY, '-m', module, '--shard', f'{i}/{nshards}', '--tier', tier, '--seed', str(seed_)]
                if extra_args:
                    cmd += extra_args
                p = subprocess.Popen(cmd, stdout=out, stderr=err, env=env, cwd=str(ROOT))
                running.append((i, p, time.time(), out, err))
            time.sleep(0.05)
            still = []
            for (i, p, t0, out, err) in running:
                rc = p.poll()
                if rc is None:
                    if time.time() - t0 > timeout:
                        p.kill()
                        p.wait()
                        res.inconclusive.append(f'shard {i}/{nshards} of {module} timed out after {timeout}s')
                        out.close(); err.close()
                    else:
                        still.append((i, p, t0, out, err))
                    continue
                out.seek(0)
                text = out.read()
                err.seek(0)
                etext = err.read()
                out.close(); err.close()
                doc = None
                for line in reversed(text.splitlines()):
                    if line.startswith('@@SHARD '):
                        try:
                            doc = json.loads(line[len('@@SHARD '):])
                        except Exception:
                            doc = None
                        break
                if doc is None:
                    res.inconclusive.append(f'shard {i}/{nshards} of {module} produced no result (rc={rc}): {etext[-600:]}')
                else:
                    res.merge(doc)
            running = still
    finally:
        import shutil
        shutil.rmtree(outdir, ignore_errors=True)


def shard_main(fn: Callable[[int, int, str, int], Result]):
    """Entry point helper for a shard process."""
    import argparse
    ap = argparse.ArgumentParser()
    ap.add_argument('--shard', default='0/1')
    ap.add_argument('--tier', default='quick')
    ap.add_argument('--seed', type=int, default=0)
    ap.add_argument('rest', nargs='*')
    a = ap.parse_args()
    i, n = (int(t) for t in a.shard.split('/'))
    # a run-away shard must fail alone (MemoryError -> exit 3 -> inconclusive) instead of waking the kernel's OOM killer;
    # not for checks whose child processes need a huge address space (AddressSanitizer binaries: C11)
    gb = int(os.environ.get('VF_SHARD_AS_GB', '14'))
    if gb > 0 and not getattr(sys.modules.get(fn.__module__), 'NO_MEMORY_LIMIT', False):
        try:
            import resource
            resource.setrlimit(resource.RLIMIT_AS, (gb << 30, gb << 30))
        except Exception:
            pass
    try:
        res = fn(i, n, a.tier, a.seed)
        doc = res.to_shard()
    except Exception:
        traceback.print_exc()
        sys.exit(3)
    print('@@SHARD ' + json.dumps(_jsonable(doc), default=repr))
