"""Command line entry: dispatches to vf.checks.cNN.main(tier)."""
from __future__ import annotations

import importlib
import os
import sys
import time
import traceback


def main(argv):
    if not argv:
        print('usage: check <ID> [quick|thorough] | check --replay <file>')
        return 2
    if argv[0] == '--replay':
        from . import replay
        return replay.main(argv[1:])
    prop = argv[0].upper()
    tier = argv[1] if len(argv) > 1 else os.environ.get('VERIF_TIER', 'quick')
    if tier not in ('quick', 'thorough'):
        tier = 'quick'
    try:
        mod = importlib.import_module(f'vf.checks.{prop.lower()}')
    except ModuleNotFoundError as e:
        print(f'no check for {prop}: {e}')
        return 2
    try:
        return mod.main(tier)
    except SystemExit:
        raise
    except Exception:
        traceback.print_exc()
        print(f'{prop}: INCONCLUSIVE: harness error (see traceback)')
        return 2


if __name__ == '__main__':
    sys.exit(main(sys.argv[1:]))
