"""
Bridges fpy2 objects and the independent oracle.

`describe(ctx)` builds an oracle `Fmt` from a context's **constructor
parameters only** (es, nbits, enable_inf, nan_kind, eoffset / pmax, emin,
maxval / nmin, maxval / signed, scale, nbits / nbits, eoffset), re-deriving
pmax, emin, maxval of the extended float family with the oracle's own layout
decoder, so a wrong `_ext_to_mpb_fmt` is noticed.

`to_val(x)` gives the denotation of any accepted operand type.
"""
from __future__ import annotations

import math
from fractions import Fraction

import fpy2 as fp
from fpy2.number import (
    EFloatContext, ExpContext, FixedContext, IEEEContext, MPBFixedContext,
    MPBFloatContext, MPFixedContext, MPFloatContext, MPSFloatContext,
    SMFixedContext, Float, RealFloat,
)
from fpy2.number.context.real import RealContext

from . import layout
from .rnd import Fmt, pow2

__all__ = ['describe', 'to_val', 'val_str', 'Unsupported']


class Unsupported(Exception):
    pass


def rf_frac(x) -> Fraction:
    """RealFloat/Float fields -> Fraction, from (s, c, exp) only."""
    c, exp = x.c, x.exp
    v = Fraction(c) * pow2(exp)
    return -v if x.s else v


def to_val(x):
    """denotation of an operand (Float | RealFloat | int | float | Fraction)."""
    if isinstance(x, Float):
        if x.isnan:
            return ('nan',)
        if x.isinf:
            return ('inf', bool(x.s))
        return ('fin', bool(x.s), abs(rf_frac(x)))
    if isinstance(x, RealFloat):
        return ('fin', bool(x.s), abs(rf_frac(x)))
    if isinstance(x, bool):
        raise Unsupported('bool')
    if isinstance(x, int):
        return ('fin', x < 0, Fraction(abs(x)))
    if isinstance(x, float):
        if math.isnan(x):
            return ('nan',)
        if math.isinf(x):
            return ('inf', x < 0)
        return ('fin', math.copysign(1.0, x) < 0, abs(Fraction(x)))
    if isinstance(x, Fraction):
        return ('fin', x < 0, abs(x))
    raise Unsupported(type(x).__name__)


def val_str(v) -> str:
    if v is None:
        return 'None'
    if v[0] == 'nan':
        return 'nan'
    if v[0] == 'inf':
        return '-inf' if v[1] else '+inf'
    return ('-' if v[1] else '+') + str(v[2])


def _sub(v):
    return None if v is None else to_val(v)


def describe(ctx) -> Fmt:
    """oracle description of a context; raises Unsupported for stochastic / unknown ones."""
    nr = getattr(ctx, 'num_randbits', 0)
    if nr != 0:
        raise Unsupported('stochastic')
    t = type(ctx)
    if t is RealContext:
        return Fmt('real', None, None, None, None, real=True)
    if t is MPFloatContext:
        return Fmt('mp', ctx.pmax, None, None, None,
                   has_inf=ctx.enable_inf, has_nan=ctx.enable_nan,
                   mode=ctx.rm.name, nan_value=_sub(ctx.nan_value), inf_value=_sub(ctx.inf_value))
    if t is MPSFloatContext:
        return Fmt('mps', ctx.pmax, ctx.emin - ctx.pmax + 1, None, None,
                   has_inf=ctx.enable_inf, has_nan=ctx.enable_nan,
                   mode=ctx.rm.name, nan_value=_sub(ctx.nan_value), inf_value=_sub(ctx.inf_value))
    if t is MPBFloatContext:
        return Fmt('mpb', ctx.pmax, ctx.emin - ctx.pmax + 1, rf_frac(ctx.pos_maxval), rf_frac(ctx.neg_maxval),
                   has_inf=ctx.enable_inf, has_nan=ctx.enable_nan,
                   mode=ctx.rm.name, overflow=ctx.overflow.name,
                   nan_value=_sub(ctx.nan_value), inf_value=_sub(ctx.inf_value))
    if t is EFloatContext or t is IEEEContext:
        nk = int(ctx.nan_kind)
        p, expmin, pos_max = layout.efloat_params(ctx.es, ctx.nbits, ctx.enable_inf, nk, ctx.eoffset)
        return Fmt('efloat' if t is EFloatContext else 'ieee', p, expmin, pos_max, -pos_max,
                   has_inf=ctx.enable_inf, has_nan=(nk != layout.NONE),
                   has_neg_zero=(nk != layout.NEG_ZERO),
                   mode=ctx.rm.name, overflow=ctx.overflow.name,
                   nan_value=_sub(ctx.nan_value), inf_value=_sub(ctx.inf_value),
                   efloat_fixup=True, efloat_nan_kind=nk)
    if t is MPFixedContext:
        return Fmt('mpfixed', None, ctx.nmin + 1, None, None,
                   has_inf=ctx.enable_inf, has_nan=ctx.enable_nan, has_neg_zero=ctx.enable_neg_zero,
                   mode=ctx.rm.name, nan_value=_sub(ctx.nan_value), inf_value=_sub(ctx.inf_value),
                   inf_sub_takes_sign=False, inf_sub_any_sign=True)
    if t is FixedContext:
        u = pow2(ctx.scale)
        if ctx.signed:
            pos, neg = ((1 << (ctx.nbits - 1)) - 1) * u, -(1 << (ctx.nbits - 1)) * u
        else:
            pos, neg = ((1 << ctx.nbits) - 1) * u, Fraction(0)
        return Fmt('fixed', None, ctx.scale, pos, neg,
                   has_inf=False, has_nan=False, has_neg_zero=False,
                   mode=ctx.rm.name, overflow=ctx.overflow.name,
                   nan_value=_sub(ctx.nan_value), inf_value=_sub(ctx.inf_value),
                   inf_sub_takes_sign=False, inf_sub_any_sign=True)
    if t is SMFixedContext:
        u = pow2(ctx.scale)
        pos = ((1 << (ctx.nbits - 1)) - 1) * u
        return Fmt('smfixed', None, ctx.scale, pos, -pos,
                   has_inf=False, has_nan=False, has_neg_zero=True,
                   mode=ctx.rm.name, overflow=ctx.overflow.name,
                   nan_value=_sub(ctx.nan_value), inf_value=_sub(ctx.inf_value),
                   inf_sub_takes_sign=False, inf_sub_any_sign=True)
    if t is MPBFixedContext:
        return Fmt('mpbfixed', None, ctx.nmin + 1, rf_frac(ctx.pos_maxval), rf_frac(ctx.neg_maxval),
                   has_inf=ctx.enable_inf, has_nan=ctx.enable_nan, has_neg_zero=ctx.enable_neg_zero,
                   mode=ctx.rm.name, overflow=ctx.overflow.name,
                   nan_value=_sub(ctx.nan_value), inf_value=_sub(ctx.inf_value),
                   inf_sub_takes_sign=False, inf_sub_any_sign=True)
    if t is ExpContext:
        bias = ((1 << (ctx.nbits - 1)) - 1) - ctx.eoffset
        emin = 0 - bias
        emax = ((1 << ctx.nbits) - 2) - bias
        return Fmt('exp', 1, emin, pow2(emax), None,
                   has_inf=False, has_nan=True, has_neg_zero=False,
                   mode=ctx.rm.name, overflow=ctx.overflow.name,
                   inf_value=_sub(ctx.inf_value), positive_only=True)
    raise Unsupported(t.__name__)
