"""
Enclosure oracle for transcendental functions and constants (Ziv's strategy).

f(x) is evaluated by MPFR at growing working precision w; one correctly
rounded MPFR call has relative error <= 2^-w, so [v(1 - 2^-(w-4)), v(1 + 2^-(w-4))]
encloses the true value (composed constants: a few roundings, same margin).
`cmp(v)` answers sign(f - v) as soon as v leaves the enclosure, otherwise the
precision is doubled; beyond CAP bits the case is *inconclusive* (never a
violation).  Results that are exactly rational are recognised beforehand by
exact tests, so the loop is only entered for irrational values.

Trusted base: MPFR's correct rounding of a single function call.  The path is
different from the code under test (RTZ at p+2 digits + sticky bit).
"""
from __future__ import annotations

import math
from fractions import Fraction

import gmpy2 as gmp

from .arith import _perfect_root, powi, sval

CAP = 16384


class Inconclusive(Exception):
    pass


def _ctx(prec):
    return gmp.context(precision=prec, emin=gmp.get_emin_min(), emax=gmp.get_emax_max(),
                       trap_underflow=False, trap_overflow=False, trap_inexact=False,
                       trap_divzero=False, trap_invalid=False, round=gmp.RoundToNearest)


def to_mpfr(v, prec):
    """denotation -> mpfr, exactly (prec must cover the operand)."""
    if v[0] == 'nan':
        return gmp.nan()
    if v[0] == 'inf':
        return gmp.set_sign(gmp.inf(), v[1])
    f = v[2]
    if f == 0:
        return gmp.set_sign(gmp.mpfr(0), v[1])
    m = gmp.mpfr(gmp.mpq(f.numerator, f.denominator))
    return -m if v[1] else m


def mpfr_to_val(m):
    if m.is_nan():
        return ('nan',)
    if m.is_infinite():
        return ('inf', bool(m.is_signed()))
    if m.is_zero():
        return ('fin', bool(m.is_signed()), Fraction(0))
    man, exp = m.as_mantissa_exp()
    man, exp = int(man), int(exp)
    f = Fraction(abs(man)) * (Fraction(2) ** exp)
    return ('fin', man < 0, f)


def _lgamma(x):
    y, _ = gmp.lgamma(x)
    return y


FUNCS = {
    'exp': gmp.exp, 'exp2': gmp.exp2, 'exp10': gmp.exp10, 'expm1': gmp.expm1,
    'log': gmp.log, 'log2': gmp.log2, 'log10': gmp.log10, 'log1p': gmp.log1p,
    'sin': gmp.sin, 'cos': gmp.cos, 'tan': gmp.tan,
    'asin': gmp.asin, 'acos': gmp.acos, 'atan': gmp.atan, 'atan2': gmp.atan2,
    'sinh': gmp.sinh, 'cosh': gmp.cosh, 'tanh': gmp.tanh,
    'asinh': gmp.asinh, 'acosh': gmp.acosh, 'atanh': gmp.atanh,
    'erf': gmp.erf, 'erfc': gmp.erfc, 'tgamma': gmp.gamma, 'lgamma': _lgamma,
    'pow': lambda x, y: x ** y,
}

CONSTS = {
    'const_pi': lambda: gmp.const_pi(),
    'const_e': lambda: gmp.exp(gmp.mpfr(1)),
    'const_ln2': lambda: gmp.const_log2(),
    'const_log2e': lambda: 1 / gmp.const_log2(),
    'const_log10e': lambda: 1 / gmp.log(gmp.mpfr(10)),
    'const_pi_2': lambda: gmp.const_pi() / 2,
    'const_pi_4': lambda: gmp.const_pi() / 4,
    'const_1_pi': lambda: 1 / gmp.const_pi(),
    'const_2_pi': lambda: 2 / gmp.const_pi(),
    'const_2_sqrt_pi': lambda: 2 / gmp.sqrt(gmp.const_pi()),
    'const_sqrt2': lambda: gmp.sqrt(gmp.mpfr(2)),
    'const_sqrt1_2': lambda: 1 / gmp.sqrt(gmp.mpfr(2)),
}


def _is_int(v):
    return v[0] == 'fin' and v[2].denominator == 1


def _pow2_log(f: Fraction):
    """k with f == 2^k, else None (f > 0)."""
    n, d = f.numerator, f.denominator
    if n & (n - 1) == 0 and d == 1:
        return n.bit_length() - 1
    if d & (d - 1) == 0 and n == 1:
        return -(d.bit_length() - 1)
    return None


def exact_value(name: str, vals):
    """
    The exact value of f(args) when it is rational (as a denotation), else
    None.  Only finite operands.  These are the finitely many algebraic
    coincidences (Lindemann-Weierstrass / Gelfond-Schneider exclude others
    for dyadic arguments).
    """
    x = vals[0]
    zero = ('fin', False, Fraction(0))
    one = ('fin', False, Fraction(1))
    if any(v[0] != 'fin' for v in vals):
        return None
    xv = sval(x)
    if name in ('sin', 'tan', 'asin', 'atan', 'sinh', 'tanh', 'asinh', 'atanh', 'expm1', 'log1p', 'erf'):
        return ('fin', x[1], Fraction(0)) if xv == 0 else None
    if name in ('cos', 'cosh', 'exp', 'erfc'):
        return one if xv == 0 else None
    if name in ('acos', 'acosh', 'log'):
        return zero if xv == 1 else None
    if name == 'exp2':
        return ('fin', False, Fraction(2) ** int(xv)) if xv.denominator == 1 and abs(xv) < 5000 else None
    if name == 'exp10':
        return ('fin', False, Fraction(10) ** int(xv)) if xv.denominator == 1 and abs(xv) < 2000 else None
    if name == 'log2':
        if xv > 0:
            k = _pow2_log(xv)
            if k is not None:
                return ('fin', k < 0, Fraction(abs(k)))
        return None
    if name == 'log10':
        if xv > 0 and xv.denominator == 1:
            k, t = 0, xv.numerator
            while t % 10 == 0:
                t //= 10
                k += 1
            if t == 1:
                return ('fin', False, Fraction(k))
        return None
    if name == 'tgamma':
        if xv.denominator == 1 and 1 <= xv <= 60:
            return ('fin', False, Fraction(math.factorial(int(xv) - 1)))
        return None
    if name == 'lgamma':
        return zero if xv in (1, 2) else None
    if name == 'atan2':
        y, x2 = vals
        if y[2] == 0 and (x2[2] != 0 and not x2[1]):
            return ('fin', y[1], Fraction(0))
        if y[2] == 0 and x2[2] == 0 and not x2[1]:
            return ('fin', y[1], Fraction(0))
        return None
    if name == 'pow':
        b, e = vals
        ev = sval(e)
        if ev.denominator == 1:
            if abs(ev) > 4096:
                return None
            r = powi(b, int(ev))
            if isinstance(r[-1], dict):
                r = r[:-1]
            return r if r[0] == 'fin' else None
        bv = sval(b)
        if bv == 1:
            return one
        if bv <= 0:
            return None
        # e = m / 2^j : exact iff b is a perfect 2^j-th power
        j = ev.denominator.bit_length() - 1
        root = bv
        for _ in range(j):
            root = _perfect_root(root, 2)
            if root is None:
                return None
        m = ev.numerator
        if abs(m) > 4096:
            return None
        return ('fin', False, root ** m)
    return None


class Enclosure:
    """sign(f - v) oracle with lazily growing precision."""

    def __init__(self, compute):
        self.compute = compute          # w -> mpfr value at working precision w
        self.w = 0
        self.lo = self.hi = None
        self.special = None
        self.max_w = 0
        self._grow(96)

    def _grow(self, w):
        if w > CAP:
            raise Inconclusive(f'needs more than {CAP} bits')
        with _ctx(w):
            m = self.compute(w)
        if (m.is_zero() or m.is_infinite()) and m.rc != 0:
            # MPFR's own exponent range was exceeded: not a special value of f
            raise Inconclusive('result outside the MPFR exponent range')
        v = mpfr_to_val(m)
        self.w = w
        self.max_w = max(self.max_w, w)
        if v[0] != 'fin' or v[2] == 0:
            self.special = v
            return
        f = sval(v)
        eps = abs(f) / (1 << (w - 6))
        self.lo, self.hi = f - eps, f + eps

    def sign(self):
        while self.special is None and self.lo < 0 < self.hi:
            self._grow(self.w * 2)
        if self.special is not None:
            return None
        return self.lo < 0

    def cmp_abs(self, v: Fraction) -> int:
        """sign(|f| - v), v >= 0"""
        while True:
            lo, hi = self.lo, self.hi
            if lo < 0:
                lo, hi = -hi, -lo
            if v < lo:
                return 1
            if v > hi:
                return -1
            self._grow(self.w * 2)


def function_enclosure(name: str, vals) -> Enclosure:
    fn = FUNCS[name]
    bits = 64
    for v in vals:
        if v[0] == 'fin' and v[2] != 0:
            bits = max(bits, v[2].numerator.bit_length() + v[2].denominator.bit_length() + 8)

    def compute(w):
        # operands converted exactly (precision >= their width); the context is w
        with _ctx(max(w, bits)):
            args = [to_mpfr(v, max(w, bits)) for v in vals]
        return fn(*args)
    return Enclosure(compute)


def constant_enclosure(name: str) -> Enclosure:
    fn = CONSTS[name]
    return Enclosure(lambda w: fn())
