"""
Independent rounding oracle.

Written from the definitions (IEEE 754-2019 sections 4.3 and 7.4, FPy's
documentation of its rounding/overflow modes), on `Fraction`s with `floor` --
not from `RealFloat._round_at`.  No fpy2 import: contexts are described by
plain `Fmt` records built by `describe()` in `vf/oracle/describe.py`.

Operand / result values
    ('fin', neg: bool, mag: Fraction)      finite (neg matters for zero)
    ('inf', neg)
    ('nan',)
Expected outcome of a rounding
    Expect(values=[... acceptable values ...], inexact=bool|None,
           overflow=bool|None, raises=None|tuple of exception names)
"""
from __future__ import annotations

from dataclasses import dataclass, field
from fractions import Fraction

RNE, RNA, RTP, RTN, RTZ, RAZ, RTO, RTE = 'RNE', 'RNA', 'RTP', 'RTN', 'RTZ', 'RAZ', 'RTO', 'RTE'
MODES = (RNE, RNA, RTP, RTN, RTZ, RAZ, RTO, RTE)
OVERFLOW, SATURATE, WRAP, ASSERT = 'OVERFLOW', 'SATURATE', 'WRAP', 'ASSERT'


def pow2(e: int) -> Fraction:
    return Fraction(1 << e) if e >= 0 else Fraction(1, 1 << -e)


def ilog2(a: Fraction) -> int:
    """floor(log2(a)) for a > 0, exactly."""
    n, d = a.numerator, a.denominator
    e = n.bit_length() - d.bit_length()
    # 2^e <= a < 2^(e+1) ?  adjust
    if pow2(e) > a:
        e -= 1
    elif pow2(e + 1) <= a:
        e += 1
    return e


@dataclass
class Fmt:
    family: str
    p: int | None                 # max significant bits (None: unbounded)
    expmin: int | None            # least quantum exponent (None: unbounded)
    pos_max: Fraction | None      # largest finite value (None: unbounded)
    neg_max: Fraction | None      # smallest finite value (<= 0)
    has_inf: bool = True
    has_nan: bool = True
    has_neg_zero: bool = True
    mode: str = RNE
    overflow: str = OVERFLOW
    # substitutes: value tuples as above, or None
    nan_value: tuple | None = None
    inf_value: tuple | None = None
    # how substitutes / fallbacks behave (family specific, from the docs)
    inf_sub_takes_sign: bool = True       # float families: operand's sign
    inf_sub_any_sign: bool = False        # fixed families: docs silent -> both accepted
    efloat_fixup: bool = False            # documented EFloat fallbacks
    efloat_nan_kind: int | None = None
    positive_only: bool = False           # ExpContext
    rto_overflow_to_max: bool = False     # informational only (spec silent)
    real: bool = False
    notes: dict = field(default_factory=dict)

    def with_n(self, n: int) -> 'Fmt':
        """format used by round_at(x, n): quantum at least 2^(n+1)."""
        import copy
        f = copy.copy(self)
        f.notes = dict(self.notes)
        if self.expmin is not None:
            f.notes.setdefault('wrap_expmin', self.expmin)
        f.expmin = (n + 1) if self.expmin is None else max(self.expmin, n + 1)
        return f


@dataclass
class Expect:
    values: list                   # acceptable result values
    inexact: bool | None = None    # None: not checked
    overflow: bool | None = None
    raises: tuple | None = None    # acceptable exception class names
    also_raises: tuple | None = None  # raising these is acceptable *in addition* to values
    why: str = ''


def fin(v: Fraction, neg: bool | None = None):
    if neg is None:
        neg = v < 0
    return ('fin', bool(neg), abs(v))


def value_of(x) -> Fraction:
    assert x[0] == 'fin'
    return -x[2] if x[1] else x[2]


# ---------------------------------------------------------------------------
# Core: neighbours and choice
# ---------------------------------------------------------------------------

def quantum_exp(fd: Fmt, a: Fraction) -> int:
    """exponent of the spacing of the format around magnitude a > 0."""
    if fd.p is None:
        assert fd.expmin is not None
        return fd.expmin
    q = ilog2(a) - fd.p + 1
    if fd.expmin is not None and q < fd.expmin:
        q = fd.expmin
    return q


def neighbours(fd: Fmt, a: Fraction):
    """(lo, hi, q) magnitudes in the exponent-unbounded format with lo <= a <= hi."""
    q = quantum_exp(fd, a)
    u = pow2(q)
    k = (a / u).__floor__()
    lo = k * u
    if lo == a:
        return lo, lo, q, k
    return lo, lo + u, q, k


def choose_up(mode: str, neg: bool, a: Fraction, lo: Fraction, hi: Fraction, k: int) -> bool:
    """Should the magnitude go to `hi` (away from zero)?  lo < a < hi."""
    mid2 = lo + hi            # 2 * midpoint
    a2 = 2 * a
    if mode == RNE:
        if a2 != mid2:
            return a2 > mid2
        return k % 2 == 1     # tie: the even one of k, k+1
    if mode == RNA:
        return a2 >= mid2
    if mode == RTZ:
        return False
    if mode == RAZ:
        return True
    if mode == RTP:
        return not neg
    if mode == RTN:
        return neg
    if mode == RTO:
        return k % 2 == 0     # pick the odd one
    if mode == RTE:
        return k % 2 == 1     # pick the even one
    raise ValueError(mode)


def round_unbounded(fd: Fmt, mode: str, neg: bool, a: Fraction):
    """Rounds magnitude a > 0 in the exponent-unbounded format. -> (mag, exact)"""
    lo, hi, q, k = neighbours(fd, a)
    if lo == hi:
        return lo, True
    up = choose_up(mode, neg, a, lo, hi, k)
    return (hi if up else lo), False


def overflow_choices(mode: str, neg: bool):
    """
    IEEE 754 7.4: which of {'inf','max'} an overflow produces.  For FPy's
    non-IEEE directed modes RTO/RTE the standard is silent: both accepted.
    """
    if mode in (RNE, RNA, RAZ):
        return ('inf',)
    if mode == RTZ:
        return ('max',)
    if mode == RTP:
        return ('max',) if neg else ('inf',)
    if mode == RTN:
        return ('inf',) if neg else ('max',)
    return ('inf', 'max')


# ---------------------------------------------------------------------------
# The oracle
# ---------------------------------------------------------------------------

def _zero(fd: Fmt, neg: bool):
    return ('fin', bool(neg and fd.has_neg_zero), Fraction(0))


def _max(fd: Fmt, neg: bool):
    v = fd.neg_max if neg else fd.pos_max
    assert v is not None
    if v == 0:
        return _zero(fd, neg)
    return fin(v)


def _inf_result(fd: Fmt, neg: bool, from_overflow: bool) -> Expect:
    """what an infinite result becomes under this format."""
    if fd.has_inf:
        return Expect([('inf', neg)])
    if fd.efloat_fixup:
        if fd.inf_value is not None:
            return Expect([_resign(fd.inf_value, neg)])
        if fd.has_nan:
            return Expect([('nan',)])
        return Expect([_max(fd, neg)])
    if fd.inf_value is None:
        return Expect([], raises=('ValueError',))
    if fd.inf_sub_any_sign:
        return Expect([_resign(fd.inf_value, False), _resign(fd.inf_value, True), fd.inf_value])
    if fd.inf_sub_takes_sign:
        return Expect([_resign(fd.inf_value, neg)])
    return Expect([fd.inf_value])


def _resign(v, neg):
    if v[0] == 'nan':
        return v
    if v[0] == 'inf':
        return ('inf', neg)
    return ('fin', neg, v[2])


def _nan_result(fd: Fmt, neg: bool) -> Expect:
    if fd.has_nan:
        return Expect([('nan',)])
    if fd.efloat_fixup:
        if fd.nan_value is not None:
            return Expect([_resign(fd.nan_value, neg)])
        if fd.has_inf:
            return Expect([('inf', neg)])
        return Expect([_max(fd, neg)])
    if fd.nan_value is None:
        return Expect([], raises=('ValueError',))
    return Expect([fd.nan_value, _resign(fd.nan_value, False), _resign(fd.nan_value, True)])


def _canon_zero(fd: Fmt, v):
    """-0 that the format lacks becomes +0."""
    if v[0] == 'fin' and v[2] == 0 and v[1] and not fd.has_neg_zero:
        return ('fin', False, Fraction(0))
    return v


def expected_round(fd: Fmt, x, n: int | None = None) -> Expect:
    """Expected outcome of ctx.round(x) (n is None) / ctx.round_at(x, n)."""
    if fd.real:
        # the identity: value unchanged; flags of the operand are carried along
        # (e.g. ceil under REAL hands an already-flagged value through), so
        # they are not judged here
        return Expect([x])
    if fd.positive_only:
        return _expected_exp(fd, x, n)
    if n is not None:
        fd = fd.with_n(n)

    if x[0] == 'nan':
        e = _nan_result(fd, False)
        e.values = [_canon_zero(fd, v) for v in e.values]
        return e
    if x[0] == 'inf':
        e = _inf_result(fd, x[1], False)
        e.values = [_canon_zero(fd, v) for v in e.values]
        return e

    neg, a = x[1], x[2]
    if a == 0:
        return Expect([_zero(fd, neg)], inexact=False, overflow=False)

    mag, exact = round_unbounded(fd, fd.mode, neg, a)
    r = -mag if neg else mag
    over = False
    if fd.pos_max is not None and r > fd.pos_max:
        over = True
    if fd.neg_max is not None and r < fd.neg_max:
        over = True
    if not over:
        if mag == 0:
            return Expect([_zero(fd, neg)], inexact=not exact, overflow=False)
        return Expect([('fin', neg, mag)], inexact=not exact, overflow=False)

    # overflow
    if fd.overflow == ASSERT:
        return Expect([], raises=('OverflowError',))
    if fd.overflow == SATURATE:
        return Expect([_max(fd, neg)], inexact=True, overflow=True)
    if fd.overflow == WRAP:
        assert fd.expmin is not None and fd.pos_max is not None and fd.neg_max is not None
        u = pow2(fd.notes.get('wrap_expmin', fd.expmin))
        lo_k = fd.neg_max / u
        hi_k = fd.pos_max / u
        assert lo_k.denominator == 1 and hi_k.denominator == 1
        total = int(hi_k) - int(lo_k) + 1
        k = r / u
        assert k.denominator == 1
        kk = (int(k) - int(lo_k)) % total + int(lo_k)
        v = kk * u
        return Expect([fin(v, False) if v == 0 else fin(v)], inexact=True, overflow=True)
    # OVERFLOW
    vals = []
    raises = None
    for c in overflow_choices(fd.mode, neg):
        if c == 'max':
            vals.append(_max(fd, neg))
        else:
            e = _inf_result(fd, neg, True)
            vals.extend(e.values)
            if e.raises:
                raises = e.raises
    vals = [_canon_zero(fd, v) for v in vals]
    if vals and raises:
        return Expect(vals, inexact=True, overflow=True, also_raises=raises)
    if raises:
        return Expect([], raises=raises)
    return Expect(vals, inexact=True, overflow=True)


def _expected_exp(fd: Fmt, x, n=None) -> Expect:
    """
    ExpContext: members are NaN and 2^k, emin <= k <= emax (stored as
    expmin/pos_max).  Non-positive and NaN operands have no member to go to
    but NaN; infinity goes to its substitute or NaN.  Below the smallest
    member the documentation treats the gap like the overflow gap; the choice
    there is spec-silent, so {NaN, minval} is accepted under OVERFLOW and
    minval under SATURATE.
    """
    nan = ('nan',)
    minval = fin(pow2(fd.expmin))
    maxval = fin(fd.pos_max)
    if x[0] == 'nan':
        return Expect([nan])
    if x[0] == 'inf':
        if x[1]:
            return Expect([nan, fd.inf_value] if fd.inf_value else [nan])
        return Expect([fd.inf_value] if fd.inf_value else [nan])
    neg, a = x[1], x[2]
    if a == 0 or neg:
        return Expect([nan])
    one = Fmt('mp', 1, None if n is None else n + 1, None, None)
    mag, exact = round_unbounded(one, fd.mode, False, a)
    if mag == 0:
        # only reachable through round_at with a coarse n: zero is not a member;
        # which member (or NaN) stands in for it is not documented
        return Expect([nan, minval], inexact=None, overflow=None)
    if mag > fd.pos_max:
        if fd.overflow == SATURATE:
            return Expect([maxval], inexact=True, overflow=True)
        vals = []
        for c in overflow_choices(fd.mode, False):
            vals.append(maxval if c == 'max' else (fd.inf_value or nan))
        if fd.inf_value is not None and nan not in vals and (fd.inf_value in vals):
            vals.append(nan)   # docs: "if not set, round() will produce NaN"; a set value may also be used
        return Expect(vals, inexact=True, overflow=True)
    if mag < pow2(fd.expmin):
        if fd.overflow == SATURATE:
            return Expect([minval], inexact=True, overflow=True)
        return Expect([nan, minval], inexact=True, overflow=None)
    return Expect([('fin', False, mag)], inexact=not exact, overflow=False)


def member(fd: Fmt, v) -> bool:
    """Is v a member of the format?"""
    if fd.real:
        return True
    if v[0] == 'nan':
        return fd.has_nan
    if v[0] == 'inf':
        return fd.has_inf and not fd.positive_only
    neg, a = v[1], v[2]
    if fd.positive_only:
        if neg or a == 0:
            return False
        return a.numerator & (a.numerator - 1) == 0 and a.denominator & (a.denominator - 1) == 0 \
            and (a.numerator == 1 or a.denominator == 1) and pow2(fd.expmin) <= a <= fd.pos_max
    if a == 0:
        return (not neg) or fd.has_neg_zero
    r = -a if neg else a
    if fd.pos_max is not None and r > fd.pos_max:
        return False
    if fd.neg_max is not None and r < fd.neg_max:
        return False
    lo, hi, q, k = neighbours(fd, a)
    return lo == hi
