"""
Reference evaluator for FPy source text, written from the language reference
(docs/source/dev/semantics.rst, derived-semantics.rst, docs/USAGE.md) over the
*Python* `ast` of the same text the real front end is given.  It shares no code
with fpy2's parser, AST, compiler or interpreter:

  * numbers are denotations ('fin', neg, Fraction) / ('inf', neg) / ('nan',),
  * every rounded operator computes the exact result with `vf.oracle.arith`
    and rounds it once with `vf.oracle.rnd.expected_round` under the format
    description of the active context (`vf.oracle.describe`),
  * contexts are the only fpy2 objects: they are built by the real constructors
    from exactly evaluated arguments and only *described* (constructor
    parameters read), never asked to round.

Outcomes:  ('ok', value) | ('stuck', kind)  -- evaluation has no rule (failed
assert, index out of range, ...): the implementation has to raise.
Raises Ambiguous when the reference leaves the result open (sign of an exact
zero sum under some modes, several admissible overflow results, an irrational
result under REAL, constructs outside the supported fragment): such runs are
counted and not compared.
"""
from __future__ import annotations

import ast
from fractions import Fraction

from . import arith, rnd
from .describe import describe, Unsupported


class Ambiguous(Exception):
    pass


class Stuck(Exception):
    def __init__(self, kind, detail=''):
        super().__init__(f'{kind}: {detail}')
        self.kind = kind


class _Return(Exception):
    def __init__(self, value):
        self.value = value


class Budget(Exception):
    pass


NAN = ('nan',)


def num(v) -> tuple:
    """host value -> denotation (arguments are never rounded on entry)"""
    import math
    if isinstance(v, bool):
        raise TypeError('bool is not a number')
    if isinstance(v, int):
        return ('fin', v < 0, Fraction(abs(v)))
    if isinstance(v, float):
        if math.isnan(v):
            return NAN
        if math.isinf(v):
            return ('inf', v < 0)
        return ('fin', math.copysign(1.0, v) < 0, abs(Fraction(v)))
    if isinstance(v, Fraction):
        return ('fin', v < 0, abs(v))
    raise TypeError(type(v).__name__)


def is_num(v):
    return isinstance(v, tuple) and len(v) >= 1 and v[0] in ('fin', 'inf', 'nan')


class TupleV:
    """an FPy tuple (distinct from the denotation tuples)"""
    __slots__ = ('elts',)

    def __init__(self, elts):
        self.elts = list(elts)


def from_host(v):
    if isinstance(v, bool):
        return v
    if isinstance(v, (int, float, Fraction)):
        return num(v)
    if isinstance(v, list):
        return [from_host(x) for x in v]
    if isinstance(v, tuple):
        return TupleV(from_host(x) for x in v)
    return v      # foreign (contexts, ...)


def to_norm(v):
    """same shape as vf.gen.run.norm"""
    if isinstance(v, bool):
        return ('b', v)
    if is_num(v):
        if v[0] == 'nan':
            return ('n', 'nan')
        if v[0] == 'inf':
            return ('n', '-inf' if v[1] else '+inf')
        return ('n', bool(v[1]), v[2])
    if isinstance(v, list):
        return ('l', tuple(to_norm(x) for x in v))
    if isinstance(v, TupleV):
        return ('t', tuple(to_norm(x) for x in v.elts))
    return ('?', repr(v)[:80])


def as_int(v, what='integer'):
    if not is_num(v) or v[0] != 'fin' or v[2].denominator != 1:
        raise Stuck('type', f'{what} expected')
    k = int(v[2])
    return -k if v[1] else k


def _num_cmp(a, b):
    """-1/0/1, or None if unordered"""
    if a[0] == 'nan' or b[0] == 'nan':
        return None

    def key(x):
        if x[0] == 'inf':
            return (-1, 0) if x[1] else (1, 0)
        return (0, -x[2] if x[1] else x[2])
    ka, kb = key(a), key(b)
    return (ka > kb) - (ka < kb)


class Func:
    def __init__(self, node: ast.FunctionDef, ctx_expr):
        self.node = node
        self.name = node.name
        self.params = [a.arg for a in node.args.args]
        self.ctx_expr = ctx_expr
        self.ctx = None          # evaluated at definition time


class RefEval:
    def __init__(self, source: str, fpmod, max_steps: int = 200000):
        """fpmod: the fpy2 module, used only to look up context constructors / constants."""
        self.source = source
        self.fp = fpmod
        self.tree = ast.parse(source)
        self.globals: dict = {}
        self.funcs: dict[str, Func] = {}
        self.steps = 0
        self.max_steps = max_steps
        self.ops_seen: dict[str, int] = {}
        self._fd_cache: dict = {}
        self._load_module()

    # ---- module level ---------------------------------------------------------------------
    def _load_module(self):
        real = self.fp.REAL
        for st in self.tree.body:
            if isinstance(st, (ast.Import, ast.ImportFrom)):
                continue
            if isinstance(st, ast.Assign) and len(st.targets) == 1 and isinstance(st.targets[0], ast.Name):
                self.globals[st.targets[0].id] = self.expr(st.value, {}, real)
            elif isinstance(st, ast.FunctionDef):
                ctx_expr = None
                is_fpy = False
                for d in st.decorator_list:
                    text = ast.unparse(d)
                    if text == 'fp.fpy':
                        is_fpy = True
                    elif text.startswith('fp.fpy('):
                        is_fpy = True
                        for kw in d.keywords:
                            if kw.arg == 'ctx':
                                ctx_expr = kw.value
                            else:
                                raise Ambiguous(f'decorator keyword {kw.arg}')
                if not is_fpy:
                    raise Ambiguous('non-FPy function')
                fn = Func(st, ctx_expr)
                if ctx_expr is not None:
                    fn.ctx = self.expr(ctx_expr, {}, real)
                self.funcs[st.name] = fn
            else:
                raise Ambiguous(f'module statement {type(st).__name__}')

    # ---- entry ----------------------------------------------------------------------------------
    def run(self, fname: str, host_args, ctx=None):
        """-> ('ok', normalised value) | ('stuck', kind)"""
        self.steps = 0
        fn = self.funcs[fname]
        args = [from_host(a) for a in host_args]
        # a call from Python with no context runs under IEEE double
        active = fn.ctx if fn.ctx is not None else (ctx if ctx is not None else self.fp.FP64)
        try:
            v = self.call(fn, args, active)
        except Stuck as s:
            return ('stuck', s.kind)
        return ('ok', to_norm(v))

    def call(self, fn: Func, args, caller_ctx):
        if len(args) != len(fn.params):
            raise Stuck('arity')
        ctx = fn.ctx if fn.ctx is not None else caller_ctx
        env = dict(zip(fn.params, args))
        try:
            self.block(fn.node.body, env, ctx)
        except _Return as r:
            return r.value
        raise Stuck('no_return')

    # ---- rounding ---------------------------------------------------------------------------------
    def fd(self, ctx):
        key = id(ctx)
        ent = self._fd_cache.get(key)
        if ent is None or ent[0] is not ctx:
            try:
                d = describe(ctx)
            except Unsupported as e:
                raise Ambiguous(f'context not described: {e}')
            ent = (ctx, d)
            self._fd_cache[key] = ent
        return ent[1]

    def round(self, ctx, ideal, op: str):
        """C(exact result): one rounding under the active context"""
        self.ops_seen[op] = self.ops_seen.get(op, 0) + 1
        if ideal is not None and ideal[0] == 'fin' and ideal[2].numerator.bit_length() + ideal[2].denominator.bit_length() > 6000:
            # exact values under REAL can grow without bound (repeated squaring in a loop): out of budget, not compared
            raise Budget()
        if ideal is None:
            raise Ambiguous(f'{op}: ideal not defined by the reference (sign of NaN)')
        notes = {}
        if isinstance(ideal[-1], dict):
            notes = ideal[-1]
            ideal = ideal[:-1]
        fd = self.fd(ctx)
        if notes.get('zero_sign_open'):
            raise Ambiguous(f'{op}: sign of zero left open')
        if notes.get('zero_sign_open_rtn') and not fd.real and fd.mode == rnd.RTN:
            # an exact zero sum of opposite operands: +0, except that round-toward-negative is left open
            raise Ambiguous(f'{op}: sign of an exact zero sum under RTN')
        if ideal[0] == 'irr':
            if fd.real:
                raise Ambiguous(f'{op}: irrational result under REAL')
            a = arith.surrogate(fd, ideal[2])
            ideal = ('fin', ideal[1], a)
        if fd.real:
            return ideal
        exp = rnd.expected_round(fd, ideal)
        if exp.raises and not exp.values:
            raise Stuck('round', ','.join(exp.raises))
        if exp.also_raises:
            raise Ambiguous(f'{op}: rounding may raise')
        vals = []
        for v in exp.values:
            if v not in vals:
                vals.append(v)
        if len(vals) != 1:
            raise Ambiguous(f'{op}: {len(vals)} admissible results')
        return vals[0]

    # ---- expressions --------------------------------------------------------------------------------
    def tick(self):
        self.steps += 1
        if self.steps > self.max_steps:
            raise Budget()

    def literal(self, node: ast.Constant):
        v = node.value
        if isinstance(v, bool):
            return v
        if isinstance(v, int):
            return ('fin', False, Fraction(v))
        if isinstance(v, float):
            text = ast.get_source_segment(self.source, node)
            try:
                f = Fraction(text)
            except Exception:
                raise Ambiguous(f'literal {text!r}')
            return ('fin', False, f)
        raise Ambiguous(f'literal {v!r}')

    def number(self, node, env, ctx):
        v = self.expr(node, env, ctx)
        if not is_num(v):
            raise Stuck('type', 'number expected')
        return v

    def boolean(self, node, env, ctx):
        v = self.expr(node, env, ctx)
        if not isinstance(v, bool):
            raise Stuck('type', 'boolean expected')
        return v

    def expr(self, e, env, ctx):
        self.tick()
        m = getattr(self, 'e_' + type(e).__name__, None)
        if m is None:
            raise Ambiguous(f'expression {type(e).__name__}')
        return m(e, env, ctx)

    def e_Constant(self, e, env, ctx):
        return self.literal(e)

    def e_Name(self, e, env, ctx):
        if e.id in env:
            return env[e.id]
        if e.id in self.globals:
            return self.globals[e.id]
        if e.id in self.funcs:
            return self.funcs[e.id]
        if e.id == 'fp':
            return self.fp
        if e.id in ('True', 'False'):
            return e.id == 'True'
        if hasattr(self.fp, e.id):          # from fpy2 import *
            return getattr(self.fp, e.id)
        raise Stuck('unbound', e.id)

    def e_Attribute(self, e, env, ctx):
        base = self.expr(e.value, env, ctx)
        if is_num(base) or isinstance(base, (list, TupleV, bool)):
            raise Ambiguous('attribute of a non-foreign value')
        try:
            return from_host_foreign(getattr(base, e.attr))
        except AttributeError:
            raise Stuck('attribute', e.attr)

    def e_List(self, e, env, ctx):
        return [self.expr(x, env, ctx) for x in e.elts]

    def e_Tuple(self, e, env, ctx):
        return TupleV(self.expr(x, env, ctx) for x in e.elts)

    def e_UnaryOp(self, e, env, ctx):
        if isinstance(e.op, ast.Not):
            return not self.boolean(e.operand, env, ctx)
        if isinstance(e.op, ast.UAdd):
            return self.expr(e.operand, env, ctx)
        if isinstance(e.op, ast.USub):
            # a negated numeric literal that is zero or an integer is itself a literal (signed
            # zero, negative integer); any other negation is the rounded operator Neg
            if isinstance(e.operand, ast.Constant) and not isinstance(e.operand.value, bool) and isinstance(e.operand.value, (int, float)):
                lit = self.literal(e.operand)
                if lit[2] == 0:
                    return ('fin', True, Fraction(0))
                if lit[2].denominator == 1:
                    # the front end reads an integral-valued numeric literal (7, 7.0, 1e3) as an integer literal
                    return ('fin', True, lit[2])
            a = self.number(e.operand, env, ctx)
            return self.round(ctx, arith.neg(a), 'neg')
        raise Ambiguous(f'unary {type(e.op).__name__}')

    BINOPS = {ast.Add: ('add', arith.add), ast.Sub: ('sub', arith.sub), ast.Mult: ('mul', arith.mul), ast.Div: ('div', arith.div),
              ast.Mod: ('mod', arith.pymod)}

    def e_BinOp(self, e, env, ctx):
        ent = self.BINOPS.get(type(e.op))
        if isinstance(e.op, ast.Pow):
            a = self.number(e.left, env, ctx)
            b = self.number(e.right, env, ctx)
            return self.round(ctx, self._powi(a, b, 'pow'), 'pow')
        if ent is None:
            raise Ambiguous(f'binary {type(e.op).__name__}')
        a = self.number(e.left, env, ctx)
        b = self.number(e.right, env, ctx)
        return self.round(ctx, ent[1](a, b), ent[0])

    def e_BoolOp(self, e, env, ctx):
        if isinstance(e.op, ast.And):
            for x in e.values:
                if not self.boolean(x, env, ctx):
                    return False
            return True
        for x in e.values:
            if self.boolean(x, env, ctx):
                return True
        return False

    def e_IfExp(self, e, env, ctx):
        return self.expr(e.body if self.boolean(e.test, env, ctx) else e.orelse, env, ctx)

    def e_Compare(self, e, env, ctx):
        # the conjunction of adjacent pairwise tests; `and` short-circuits, each operand evaluated at most once
        left = self.expr(e.left, env, ctx)
        for op, rhs in zip(e.ops, e.comparators):
            right = self.expr(rhs, env, ctx)
            if not self.compare(op, left, right):
                return False
            left = right
        return True

    def compare(self, op, a, b) -> bool:
        self.ops_seen['cmp' + type(op).__name__] = self.ops_seen.get('cmp' + type(op).__name__, 0) + 1
        if isinstance(op, (ast.Eq, ast.NotEq)):
            r = self.equal(a, b)
            return r if isinstance(op, ast.Eq) else not r
        if not (is_num(a) and is_num(b)):
            raise Stuck('type', 'ordering of non-numbers')
        c = _num_cmp(a, b)
        if c is None:
            return False
        if isinstance(op, ast.Lt):
            return c < 0
        if isinstance(op, ast.LtE):
            return c <= 0
        if isinstance(op, ast.Gt):
            return c > 0
        if isinstance(op, ast.GtE):
            return c >= 0
        raise Ambiguous(f'comparison {type(op).__name__}')

    def equal(self, a, b) -> bool:
        if is_num(a) and is_num(b):
            return _num_cmp(a, b) == 0
        if isinstance(a, bool) and isinstance(b, bool):
            return a == b
        if isinstance(a, list) and isinstance(b, list):
            return len(a) == len(b) and all(self.equal(x, y) for x, y in zip(a, b))
        if isinstance(a, TupleV) and isinstance(b, TupleV):
            return len(a.elts) == len(b.elts) and all(self.equal(x, y) for x, y in zip(a.elts, b.elts))
        raise Stuck('type', '== on operands of unequal type')

    def e_Subscript(self, e, env, ctx):
        base = self.expr(e.value, env, ctx)
        if not isinstance(base, list):
            raise Stuck('type', 'indexing a non-list')
        if isinstance(e.slice, ast.Slice):
            if e.slice.step is not None:
                raise Ambiguous('slice step')
            lo = 0 if e.slice.lower is None else as_int(self.number(e.slice.lower, env, ctx))
            hi = len(base) if e.slice.upper is None else as_int(self.number(e.slice.upper, env, ctx))
            # xs[i] for i in range(start, stop): bounds are not clamped
            if hi < lo:
                raise Stuck('slice')      # exactly stop - start elements
            out = []
            for i in range(lo, hi):
                if not 0 <= i < len(base):
                    raise Stuck('slice')
                out.append(base[i])
            return out
        i = as_int(self.number(e.slice, env, ctx), 'index')
        if not 0 <= i < len(base):
            raise Stuck('index')
        return base[i]

    def e_ListComp(self, e, env, ctx):
        out = []

        def rec(k, env):
            if k == len(e.generators):
                out.append(self.expr(e.elt, env, ctx))
                return
            g = e.generators[k]
            if g.ifs or g.is_async:
                raise Ambiguous('comprehension filter')
            it = self.expr(g.iter, env, ctx)
            if not isinstance(it, list):
                raise Stuck('type', 'iterating a non-list')
            i = 0
            while i < len(it):
                self.tick()
                env2 = dict(env)
                self.bind(g.target, it[i], env2)
                rec(k + 1, env2)
                i += 1
        rec(0, env)
        return out

    def e_Call(self, e, env, ctx):
        if e.keywords and not self._is_foreign_call(e, env):
            raise Ambiguous('keyword arguments')
        f = e.func
        name = None
        if isinstance(f, ast.Name):
            name = f.id
        elif isinstance(f, ast.Attribute) and isinstance(f.value, ast.Name) and f.value.id == 'fp':
            name = 'fp.' + f.attr
        if name in self.funcs and name not in env:
            args = [self.expr(a, env, ctx) for a in e.args]
            return self.call(self.funcs[name], args, ctx)
        h = self.BUILTINS.get(name)
        if h is not None:
            return h(self, e, env, ctx)
        # a foreign callable: context constructors and methods of contexts
        return self.foreign_call(e, env, ctx)

    def _is_foreign_call(self, e, env):
        f = e.func
        if isinstance(f, ast.Name) and (f.id in self.funcs or f.id in self.BUILTINS):
            return False
        if isinstance(f, ast.Attribute) and isinstance(f.value, ast.Name) and f.value.id == 'fp' and ('fp.' + f.attr) in self.BUILTINS:
            return False
        return True

    def foreign_call(self, e, env, ctx):
        callee = self.expr(e.func, env, ctx)
        if is_num(callee) or isinstance(callee, (list, TupleV, bool, Func)):
            raise Stuck('type', 'not callable')
        args = [to_host(self.expr(a, env, ctx)) for a in e.args]
        kwargs = {k.arg: to_host(self.expr(k.value, env, ctx)) for k in e.keywords}
        Context = self.fp.number.Context if hasattr(self.fp, 'number') else None
        ok = (isinstance(callee, type) and Context is not None and issubclass(callee, Context)) or \
             (getattr(callee, '__self__', None) is not None and Context is not None and isinstance(callee.__self__, Context))
        if not ok:
            raise Ambiguous('foreign callable other than a context constructor / method')
        try:
            return callee(*args, **kwargs)
        except Exception as ex:
            raise Stuck('context_constructor', f'{type(ex).__name__}: {ex}')

    # builtins ---------------------------------------------------------------------------------------
    def b_abs(self, e, env, ctx):
        return self.round(ctx, arith.fabs(self.number(e.args[0], env, ctx)), 'abs')

    def b_sqrt(self, e, env, ctx):
        return self.round(ctx, arith.sqrt(self.number(e.args[0], env, ctx)), 'sqrt')

    def b_fma(self, e, env, ctx):
        a, b, c = (self.number(x, env, ctx) for x in e.args)
        return self.round(ctx, arith.fma(a, b, c), 'fma')

    def b_round(self, e, env, ctx):
        return self.round(ctx, self.number(e.args[0], env, ctx), 'round')

    def b_cast(self, e, env, ctx):
        a = self.number(e.args[0], env, ctx)
        r = self.round(ctx, a, 'cast')
        if to_norm(r) != to_norm(a) and not (a[0] == 'nan' and r[0] == 'nan'):
            raise Stuck('cast')
        return r

    def _rint(how):
        def f(self, e, env, ctx):
            return self.round(ctx, arith.rint(self.number(e.args[0], env, ctx), how), how)
        return f
    b_floor = _rint('floor')
    b_ceil = _rint('ceil')
    b_trunc = _rint('trunc')

    def _minmax(is_max):
        def f(self, e, env, ctx):
            vals = [self.expr(a, env, ctx) for a in e.args]
            if len(vals) == 1:
                if not isinstance(vals[0], list):
                    raise Stuck('type', 'min/max of a non-list')
                vals = vals[0]
                if not vals:
                    raise Stuck('empty')
            for v in vals:
                if not is_num(v):
                    raise Stuck('type', 'min/max of a non-number')
            self.ops_seen['max' if is_max else 'min'] = self.ops_seen.get('max' if is_max else 'min', 0) + 1
            acc = vals[0]
            for y in vals[1:]:
                acc = self._sel(acc, y, is_max)
            return acc
        return f
    b_max = _minmax(True)
    b_min = _minmax(False)

    @staticmethod
    def _sel(x, y, is_max):
        # selection returns one operand exactly; NaN propagates; +-0 ties broken by sign
        if x[0] == 'nan' or y[0] == 'nan':
            return x if x[0] == 'nan' else y
        c = _num_cmp(x, y)
        sx = bool(x[1])
        if is_max:
            return x if c > 0 or (c == 0 and not sx) else y
        return x if c < 0 or (c == 0 and sx) else y

    def b_len(self, e, env, ctx):
        v = self.expr(e.args[0], env, ctx)
        if not isinstance(v, list):
            raise Stuck('type', 'len of a non-list')
        return ('fin', False, Fraction(len(v)))

    def b_sum(self, e, env, ctx):
        v = self.expr(e.args[0], env, ctx)
        if not isinstance(v, list):
            raise Stuck('type', 'sum of a non-list')
        if not v:
            return ('fin', False, Fraction(0))
        for x in v:
            if not is_num(x):
                raise Stuck('type', 'sum of non-numbers')
        acc = v[0]
        for x in v[1:]:
            acc = self.round(ctx, arith.add(acc, x), 'sum')
        return acc

    def b_any(self, e, env, ctx):
        v = self.expr(e.args[0], env, ctx)
        if not isinstance(v, list) or not all(isinstance(b, bool) for b in v):
            raise Stuck('type', 'any of a non-bool list')
        return any(v)

    def b_all(self, e, env, ctx):
        v = self.expr(e.args[0], env, ctx)
        if not isinstance(v, list) or not all(isinstance(b, bool) for b in v):
            raise Stuck('type', 'all of a non-bool list')
        return all(v)

    def b_range(self, e, env, ctx):
        a = [as_int(self.number(x, env, ctx), 'range bound') for x in e.args]
        if len(a) == 3 and a[2] == 0:
            raise Stuck('range')
        return [('fin', k < 0, Fraction(abs(k))) for k in range(*a)]

    def b_zip(self, e, env, ctx):
        ls = [self.expr(x, env, ctx) for x in e.args]
        if not all(isinstance(x, list) for x in ls):
            raise Stuck('type', 'zip of non-lists')
        if len({len(x) for x in ls}) > 1:
            raise Stuck('zip')
        return [TupleV(t) for t in zip(*ls)]

    def b_enumerate(self, e, env, ctx):
        v = self.expr(e.args[0], env, ctx)
        if not isinstance(v, list):
            raise Stuck('type', 'enumerate of a non-list')
        return [TupleV((('fin', False, Fraction(i)), x)) for i, x in enumerate(v)]


    # ---- further builtins of the language (derived-semantics.rst: E-Op / E-Pred with another operation) ----
    def _unop(name, fn):
        def f(self, e, env, ctx):
            if len(e.args) != 1:
                raise Ambiguous(f'{name}: arity')
            return self.round(ctx, fn(self.number(e.args[0], env, ctx)), name)
        return f

    def _binop(name, fn):
        def f(self, e, env, ctx):
            if len(e.args) != 2:
                raise Ambiguous(f'{name}: arity')
            a = self.number(e.args[0], env, ctx)
            b = self.number(e.args[1], env, ctx)
            return self.round(ctx, fn(a, b), name)
        return f

    b_cbrt = _unop('cbrt', arith.cbrt)
    b_fabs = _unop('abs', arith.fabs)
    b_roundint = _rint('roundint')
    b_copysign = _binop('copysign', arith.copysign)
    b_fdim = _binop('fdim', arith.fdim)
    b_fmod = _binop('fmod', arith.fmod)
    b_remainder = _binop('remainder', arith.remainder)
    b_hypot = _binop('hypot', arith.hypot)

    def b_nearbyint(self, e, env, ctx):
        # the integer chosen by the context's own rounding mode, then C: one rounding at digit position -1
        a = self.number(e.args[0], env, ctx)
        fd = self.fd(ctx)
        if fd.real:
            raise Stuck('nearbyint_real')
        self.ops_seen['nearbyint'] = self.ops_seen.get('nearbyint', 0) + 1
        exp = rnd.expected_round(fd, a, -1)
        if exp.raises and not exp.values:
            raise Stuck('round', ','.join(exp.raises))
        if exp.also_raises:
            raise Ambiguous('nearbyint: rounding may raise')
        vals = []
        for v in exp.values:
            if v not in vals:
                vals.append(v)
        if len(vals) != 1:
            raise Ambiguous(f'nearbyint: {len(vals)} admissible results')
        return vals[0]

    def _powi(self, a, b, op):
        if b[0] != 'fin' or b[2].denominator != 1 or b[2] > 64:
            raise Ambiguous('pow: exponent is not a small integer (elementary function, C03)')
        return arith.powi(a, int(arith.sval(b)))

    def b_pow(self, e, env, ctx):
        a = self.number(e.args[0], env, ctx)
        b = self.number(e.args[1], env, ctx)
        return self.round(ctx, self._powi(a, b, 'pow'), 'pow')

    def _pred(name, fn):
        def f(self, e, env, ctx):
            if len(e.args) != 1:
                raise Ambiguous(f'{name}: arity')
            self.ops_seen[name] = self.ops_seen.get(name, 0) + 1
            return fn(self.number(e.args[0], env, ctx))
        return f

    def _signbit(v):
        if v[0] == 'nan':
            raise Ambiguous('signbit of NaN')
        return bool(v[1])

    b_isnan = _pred('isnan', lambda v: v[0] == 'nan')
    b_isinf = _pred('isinf', lambda v: v[0] == 'inf')
    b_isfinite = _pred('isfinite', lambda v: v[0] == 'fin')
    b_signbit = _pred('signbit', _signbit)

    def _special(self, ctx, v, name):
        # derived-semantics.rst gives ConstNan / ConstInf as "the IEEE 754 special values" without a rounding rule (the ops docstring says
        # "rounded under the given context", the implementation hands the special back unrounded): where the active format holds the
        # special both readings agree and that value is the reference; elsewhere the reference leaves the result open
        fd = self.fd(ctx)
        self.ops_seen[name] = self.ops_seen.get(name, 0) + 1
        if fd.real:
            return v
        exp = rnd.expected_round(fd, v)
        if exp.raises or exp.also_raises or [x for x in exp.values if x != v]:
            raise Ambiguous(f'{name}: the active format has no such special value')
        return v

    def b_nan(self, e, env, ctx):
        if e.args:
            raise Ambiguous('nan: arity')
        return self._special(ctx, ('nan',), 'const_nan')

    def b_inf(self, e, env, ctx):
        if e.args:
            raise Ambiguous('inf: arity')
        return self._special(ctx, ('inf', False), 'const_inf')

    def _pair(idx):
        def f(self, e, env, ctx):
            v = self.expr(e.args[0], env, ctx)
            if not isinstance(v, TupleV) or len(v.elts) != 2:
                raise Stuck('type', 'fst / snd of a non-pair')
            self.ops_seen['fst_snd'] = self.ops_seen.get('fst_snd', 0) + 1
            return v.elts[idx]
        return f
    b_fst = _pair(0)
    b_snd = _pair(1)

    BUILTINS = {'abs': b_abs, 'fp.sqrt': b_sqrt, 'fp.fma': b_fma, 'fp.round': b_round, 'fp.cast': b_cast, 'fp.floor': b_floor, 'fp.ceil': b_ceil,
                'fp.trunc': b_trunc, 'max': b_max, 'min': b_min, 'len': b_len, 'sum': b_sum, 'any': b_any, 'all': b_all, 'range': b_range,
                'zip': b_zip, 'enumerate': b_enumerate,
                'fp.cbrt': b_cbrt, 'fp.fabs': b_fabs, 'fp.roundint': b_roundint, 'fp.nearbyint': b_nearbyint, 'fp.copysign': b_copysign,
                'fp.fdim': b_fdim, 'fp.fmod': b_fmod, 'fp.remainder': b_remainder, 'fp.hypot': b_hypot, 'fp.pow': b_pow,
                'fp.fmin': b_min, 'fp.fmax': b_max, 'fp.isnan': b_isnan, 'fp.isinf': b_isinf, 'fp.isfinite': b_isfinite,
                'fp.signbit': b_signbit, 'fp.nan': b_nan, 'fp.inf': b_inf, 'fp.round_exact': b_cast, 'fp.fst': b_fst, 'fp.snd': b_snd}

    # ---- statements -------------------------------------------------------------------------------
    def bind(self, target, value, env):
        if isinstance(target, ast.Name):
            env[target.id] = value
        elif isinstance(target, ast.Tuple):
            if not isinstance(value, TupleV) or len(value.elts) != len(target.elts):
                raise Stuck('type', 'tuple pattern')
            for t, v in zip(target.elts, value.elts):
                self.bind(t, v, env)
        else:
            raise Ambiguous(f'binding target {type(target).__name__}')

    def block(self, stmts, env, ctx):
        for s in stmts:
            self.stmt(s, env, ctx)

    def stmt(self, s, env, ctx):
        self.tick()
        m = getattr(self, 's_' + type(s).__name__, None)
        if m is None:
            raise Ambiguous(f'statement {type(s).__name__}')
        m(s, env, ctx)

    def s_Assign(self, s, env, ctx):
        if len(s.targets) != 1:
            raise Ambiguous('chained assignment')
        t = s.targets[0]
        if isinstance(t, ast.Subscript):
            # E-Index to the cell, then E-Update through it
            base = self.expr(t.value, env, ctx)
            if not isinstance(base, list):
                raise Stuck('type', 'indexed assignment to a non-list')
            if isinstance(t.slice, ast.Slice):
                raise Ambiguous('slice assignment')
            i = as_int(self.number(t.slice, env, ctx), 'index')
            v = self.expr(s.value, env, ctx)
            if not 0 <= i < len(base):
                raise Stuck('index')
            base[i] = v
            return
        self.bind(t, self.expr(s.value, env, ctx), env)

    def s_AugAssign(self, s, env, ctx):
        ent = self.BINOPS.get(type(s.op))
        if ent is None or not isinstance(s.target, ast.Name):
            raise Ambiguous('augmented assignment form')
        a = self.number(s.target, env, ctx)
        b = self.number(s.value, env, ctx)
        env[s.target.id] = self.round(ctx, ent[1](a, b), ent[0])

    def s_Return(self, s, env, ctx):
        raise _Return(self.expr(s.value, env, ctx))

    def s_Pass(self, s, env, ctx):
        return

    def s_Expr(self, s, env, ctx):
        self.expr(s.value, env, ctx)

    def s_Assert(self, s, env, ctx):
        if not self.boolean(s.test, env, ctx):
            raise Stuck('assert')

    def s_If(self, s, env, ctx):
        if self.boolean(s.test, env, ctx):
            self.block(s.body, env, ctx)
        else:
            self.block(s.orelse, env, ctx)

    def s_While(self, s, env, ctx):
        if s.orelse:
            raise Ambiguous('while-else')
        while self.boolean(s.test, env, ctx):
            self.block(s.body, env, ctx)

    def s_For(self, s, env, ctx):
        if s.orelse:
            raise Ambiguous('for-else')
        it = self.expr(s.iter, env, ctx)
        if not isinstance(it, list):
            raise Stuck('type', 'iterating a non-list')
        # an index loop: while i < len(xs): x = xs[i]; body; i = i + 1
        i = 0
        while i < len(it):
            self.tick()
            self.bind(s.target, it[i], env)
            self.block(s.body, env, ctx)
            i += 1

    def s_With(self, s, env, ctx):
        if len(s.items) != 1:
            raise Ambiguous('multi-item with')
        item = s.items[0]
        # the context expression is evaluated under REAL
        new = self.expr(item.context_expr, env, self.fp.REAL)
        Context = self.fp.number.Context
        if not isinstance(new, Context):
            raise Stuck('type', 'with expects a context')
        if item.optional_vars is not None:
            if not isinstance(item.optional_vars, ast.Name):
                raise Ambiguous('with target')
            env[item.optional_vars.id] = new
        self.block(s.body, env, new)


def from_host_foreign(v):
    """attribute of a foreign value: a native number becomes a numerical value; anything opaque stays foreign"""
    if isinstance(v, bool):
        return v
    if isinstance(v, (int, float, Fraction)):
        return num(v)
    return v


def to_host(v):
    """argument of a context constructor: exact numbers become int / Fraction"""
    if is_num(v):
        if v[0] != 'fin':
            return float('nan') if v[0] == 'nan' else (float('-inf') if v[1] else float('inf'))
        f = -v[2] if v[1] else v[2]
        return int(f) if f.denominator == 1 else f
    if isinstance(v, list):
        return [to_host(x) for x in v]
    if isinstance(v, TupleV):
        return tuple(to_host(x) for x in v.elts)
    return v
