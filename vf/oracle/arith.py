"""
Ideal (infinitely precise) results of the arithmetic operations, on
denotations.  No fpy2 import.

Operand / ideal values
    ('nan',)                    NaN
    ('inf', neg)
    ('fin', neg, mag: Fraction) finite, neg is the sign bit (matters for 0)
    ('irr', neg, cmp)           positive irrational-or-unknown magnitude r given
                                by cmp(v: Fraction>=0) -> sign(r - v)
An ideal may carry a trailing dict of notes: {'invalid': True}, {'divzero': True},
{'zero_sign_open': True}.
"""
from __future__ import annotations

from fractions import Fraction

from .rnd import Fmt, ilog2, pow2, RTN

NAN = ('nan',)


def isnan(a): return a[0] == 'nan'
def isinf(a): return a[0] == 'inf'
def isfin(a): return a[0] == 'fin'
def iszero(a): return a[0] == 'fin' and a[2] == 0
def sval(a): return -a[2] if a[1] else a[2]


def fin(v: Fraction, neg=None):
    return ('fin', (v < 0) if neg is None else bool(neg), abs(v))


def _sgn(x):
    return (x > 0) - (x < 0)


# --- basic ------------------------------------------------------------------------

def add(a, b, mode=None):
    if isnan(a) or isnan(b):
        return NAN
    if isinf(a):
        if isinf(b) and a[1] != b[1]:
            return ('nan', {'invalid': True})
        return a
    if isinf(b):
        return b
    if a[2] == 0 and b[2] == 0:
        if a[1] == b[1]:
            return ('fin', a[1], Fraction(0))
        return ('fin', False, Fraction(0), {'zero_sign_open_rtn': True})
    v = sval(a) + sval(b)
    if v == 0:
        return ('fin', False, Fraction(0), {'zero_sign_open_rtn': True})
    return fin(v)


def neg(a):
    if isnan(a):
        return NAN
    if isinf(a):
        return ('inf', not a[1])
    return ('fin', not a[1], a[2])


def sub(a, b):
    return add(a, neg(b))


def mul(a, b):
    if isnan(a) or isnan(b):
        return NAN
    s = a[1] != b[1]
    if isinf(a) or isinf(b):
        if iszero(a) or iszero(b):
            return ('nan', {'invalid': True})
        return ('inf', s)
    return ('fin', s, a[2] * b[2])


def div(a, b):
    if isnan(a) or isnan(b):
        return NAN
    s = a[1] != b[1]
    if isinf(a):
        if isinf(b):
            return ('nan', {'invalid': True})
        return ('inf', s)
    if isinf(b):
        return ('fin', s, Fraction(0))
    if iszero(b):
        if iszero(a):
            return ('nan', {'invalid': True})
        return ('inf', s, {'divzero': True})
    return ('fin', s, a[2] / b[2])


def fma(a, b, c):
    p = mul(a, b)
    if isnan(p):
        return p if len(p) > 1 or isnan(a) or isnan(b) else p
    return add(p, c)


def fabs(a):
    if isnan(a):
        return NAN
    if isinf(a):
        return ('inf', False)
    return ('fin', False, a[2])


def copysign(a, b):
    if isnan(a):
        return NAN
    s = b[1] if len(b) > 1 and b[0] != 'nan' else False
    if b[0] == 'nan':
        return None          # sign of a NaN is not part of the denotation: not judged
    if isinf(a):
        return ('inf', s)
    return ('fin', s, a[2])


def fdim(a, b):
    if isnan(a) or isnan(b):
        return NAN
    if _gt(a, b):
        return sub(a, b)
    return ('fin', False, Fraction(0))


def _key(a):
    if isinf(a):
        return (-1, 0) if a[1] else (1, 0)
    return (0, sval(a))


def _gt(a, b):
    return _key(a) > _key(b)


# --- roots -------------------------------------------------------------------------

def _perfect_root(x: Fraction, k: int):
    """exact k-th root of a non-negative rational, or None."""
    def iroot(n):
        if n < 0:
            return None
        if n < 2:
            return n
        lo, hi = 0, 1 << (n.bit_length() // k + 1)
        while lo < hi:
            mid = (lo + hi + 1) // 2
            if mid ** k <= n:
                lo = mid
            else:
                hi = mid - 1
        return lo if lo ** k == n else None
    a, b = iroot(x.numerator), iroot(x.denominator)
    if a is None or b is None:
        return None
    return Fraction(a, b)


def sqrt(a):
    if isnan(a):
        return NAN
    if iszero(a):
        return a
    if a[1]:
        return ('nan', {'invalid': True})
    if isinf(a):
        return a
    x = a[2]
    r = _perfect_root(x, 2)
    if r is not None:
        return ('fin', False, r)
    return ('irr', False, lambda v: _sgn(x - v * v))


def cbrt(a):
    if isnan(a):
        return NAN
    if iszero(a) or isinf(a):
        return a
    x = a[2]
    r = _perfect_root(x, 3)
    if r is not None:
        return ('fin', a[1], r)
    return ('irr', a[1], lambda v: _sgn(x - v * v * v))


def hypot(a, b):
    if isinf(a) or isinf(b):
        return ('inf', False)
    if isnan(a) or isnan(b):
        return NAN
    x = a[2] * a[2] + b[2] * b[2]
    if x == 0:
        return ('fin', False, Fraction(0))
    r = _perfect_root(x, 2)
    if r is not None:
        return ('fin', False, r)
    return ('irr', False, lambda v: _sgn(x - v * v))


# --- remainders ----------------------------------------------------------------------

def fmod(a, b):
    if isnan(a) or isnan(b):
        return NAN
    if isinf(a) or iszero(b):
        return ('nan', {'invalid': True})
    if isinf(b):
        return a
    if iszero(a):
        return a
    x, y = sval(a), sval(b)
    q = abs(x) // abs(y)
    r = abs(x) - q * abs(y)
    return ('fin', a[1], r)


def remainder(a, b):
    if isnan(a) or isnan(b):
        return NAN
    if isinf(a) or iszero(b):
        return ('nan', {'invalid': True})
    if isinf(b):
        return a
    if iszero(a):
        return a
    x, y = sval(a), sval(b)
    q = x / y
    n = q.__floor__()
    frac = q - n
    if frac > Fraction(1, 2) or (frac == Fraction(1, 2) and n % 2 == 1):
        n += 1
    r = x - n * y
    if r == 0:
        return ('fin', a[1], Fraction(0))
    return fin(r)


def pymod(a, b):
    """Python's %: x - floor(x/y)*y, sign of y."""
    if isnan(a) or isnan(b):
        return NAN
    if isinf(a) or iszero(b):
        return ('nan', {'invalid': True})
    if isinf(b):
        if iszero(a):
            return ('fin', b[1], Fraction(0), {'zero_sign_open': True})
        if a[1] == b[1]:
            return a
        return b
    if iszero(a):
        return ('fin', b[1], Fraction(0), {'zero_sign_open': True})
    x, y = sval(a), sval(b)
    r = x - (x / y).__floor__() * y
    if r == 0:
        return ('fin', b[1], Fraction(0), {'zero_sign_open': True})
    return fin(r)


# --- integer powers --------------------------------------------------------------------

def powi(a, n: int):
    if n == 0:
        return ('fin', False, Fraction(1))
    if isnan(a):
        return NAN
    odd = n % 2 == 1
    s = a[1] and odd
    if isinf(a):
        return ('inf', s) if n > 0 else ('fin', s, Fraction(0))
    if iszero(a):
        if n > 0:
            return ('fin', s, Fraction(0))
        return ('inf', s, {'divzero': True})
    return ('fin', s, a[2] ** n)


# --- round to integer ---------------------------------------------------------------------

def rint(a, how: str):
    """how in ceil / floor / trunc / roundint (ties away)."""
    if not isfin(a):
        return a
    v = sval(a)
    if how == 'ceil':
        r = v.__ceil__()
    elif how == 'floor':
        r = v.__floor__()
    elif how == 'trunc':
        r = v.__trunc__()
    else:
        f = abs(v).__floor__()
        if abs(v) - f >= Fraction(1, 2):
            f += 1
        r = -f if v < 0 else f
    return ('fin', a[1], Fraction(abs(r)))


# --- turning an 'irr' ideal into a rational surrogate with the same rounding -----------------

def surrogate(fd: Fmt, cmp, hint_log2: int | None = None) -> Fraction:
    """
    A rational a > 0 that rounds like the real r = the value described by cmp
    under every rounding mode of format fd: a is r itself when r is a member
    or the midpoint, else the centre of the open half-gap r lies in.
    """
    # exponent of r
    e = hint_log2 if hint_log2 is not None else 0
    while cmp(pow2(e)) < 0:
        e -= 1
    while cmp(pow2(e + 1)) >= 0:
        e += 1
    if fd.p is None:
        q = fd.expmin
    else:
        q = e - fd.p + 1
        if fd.expmin is not None and q < fd.expmin:
            q = fd.expmin
    u = pow2(q)
    # k = floor(r / u) by binary search between bounds from the exponent
    lo_k = (pow2(e) / u).__floor__()
    hi_k = (pow2(e + 1) / u).__ceil__()
    while lo_k < hi_k:
        mid = (lo_k + hi_k + 1) // 2
        if cmp(mid * u) >= 0:
            lo_k = mid
        else:
            hi_k = mid - 1
    lo = lo_k * u
    c = cmp(lo)
    if c == 0:
        return lo if lo > 0 else u / 4      # (lo == 0 cannot be equal to r > 0)
    hi = lo + u
    m = (lo + hi) / 2
    cm = cmp(m)
    if cm == 0:
        return m
    return (lo + m) / 2 if cm < 0 else (m + hi) / 2
