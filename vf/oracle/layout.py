"""
Independent decoders for every encodable format, written from the published
layouts (sign | biased exponent | mantissa, "Small Floats" blog post for the
extended family, two's complement / sign-magnitude fixed point, E8M0-style
exponent-only formats).  No fpy2 import.

A decoded value is one of
    ('fin', sign: bool, value: Fraction)      value >= 0 is the magnitude
    ('inf', sign)
    ('nan', sign)
"""
from fractions import Fraction

IEEE_754, MAX_VAL, NEG_ZERO, NONE = 0, 1, 2, 3   # mirrors EFloatNanKind values


def pow2(e: int) -> Fraction:
    return Fraction(1 << e) if e >= 0 else Fraction(1, 1 << -e)


def efloat_valid(es: int, nbits: int, enable_inf: bool, nan_kind: int) -> bool:
    """
    A format is valid when the special codes it asks for do not collide with
    each other or with zero.  Derived from the layout: there are 2^(nbits-1)
    magnitude codes; code 0 is zero; IEEE reserves the whole top exponent
    (needs es >= 1; with infinity it needs at least one mantissa bit to tell
    NaN from infinity); MAX_VAL reserves the top code (and the one below for
    infinity); NEG_ZERO/NONE reserve the top code only for infinity.
    """
    if nbits < 1 or es < 0 or es >= nbits:
        return False
    ncodes = 1 << (nbits - 1)       # magnitude codes
    m = nbits - 1 - es
    if nan_kind == IEEE_754:
        if es == 0:
            return False
        if enable_inf and m == 0:
            return False
        return True
    if nan_kind == MAX_VAL:
        need = 1 + (1 if enable_inf else 0)     # special magnitude codes
        # zero must remain a distinct code
        return ncodes >= need + 1
    # NEG_ZERO / NONE
    need = 1 if enable_inf else 0
    return ncodes >= need + 1


def decode_efloat(es: int, nbits: int, enable_inf: bool, nan_kind: int, eoffset: int, bits: int):
    m = nbits - 1 - es                      # mantissa field width
    sign = bool((bits >> (nbits - 1)) & 1)
    mag = bits & ((1 << (nbits - 1)) - 1)   # magnitude code (exponent|mantissa)
    efield = mag >> m
    mfield = mag & ((1 << m) - 1)
    top = (1 << (nbits - 1)) - 1            # all-ones magnitude code
    emask = (1 << es) - 1

    # special codes
    if nan_kind == IEEE_754:
        if efield == emask:
            if enable_inf and mfield == 0:
                return ('inf', sign)
            return ('nan', sign)
    elif nan_kind == MAX_VAL:
        if mag == top:
            return ('nan', sign)
        if enable_inf and mag == top - 1:
            return ('inf', sign)
    else:
        if enable_inf and mag == top:
            return ('inf', sign)
        if nan_kind == NEG_ZERO and sign and mag == 0:
            return ('nan', sign)

    bias = ((1 << (es - 1)) - 1 if es >= 1 else 0) - eoffset
    if efield == 0:
        # subnormal: 0.mfield * 2^(1 - bias)
        v = Fraction(mfield) * pow2(1 - bias - m)
    else:
        v = Fraction((1 << m) | mfield) * pow2(efield - bias - m)
    return ('fin', sign, v)


def decode_fixed(signed: bool, scale: int, nbits: int, bits: int):
    if signed and bits >> (nbits - 1):
        v = bits - (1 << nbits)
    else:
        v = bits
    f = Fraction(v) * pow2(scale)
    return ('fin', f < 0, abs(f))


def decode_smfixed(scale: int, nbits: int, bits: int):
    sign = bool(bits >> (nbits - 1))
    c = bits & ((1 << (nbits - 1)) - 1)
    return ('fin', sign, Fraction(c) * pow2(scale))


def decode_exp(nbits: int, eoffset: int, bits: int):
    """E8M0-like: all ones is NaN, code k is 2^(k - bias), bias = 2^(nbits-1)-1-eoffset."""
    if bits == (1 << nbits) - 1:
        return ('nan', False)
    bias = ((1 << (nbits - 1)) - 1) - eoffset
    return ('fin', False, pow2(bits - bias))


def signed_value(d):
    """Fraction value with sign applied (finite only)."""
    assert d[0] == 'fin'
    return -d[2] if d[1] else d[2]


def efloat_value_set(es, nbits, enable_inf, nan_kind, eoffset):
    """
    Returns (sorted list of distinct finite signed Fractions, has_inf, has_nan,
    has_neg_zero, has_pos_zero) by brute-force decoding (nbits small).
    """
    vals = set()
    has_inf = has_nan = has_nz = has_pz = False
    for b in range(1 << nbits):
        d = decode_efloat(es, nbits, enable_inf, nan_kind, eoffset, b)
        if d[0] == 'inf':
            has_inf = True
        elif d[0] == 'nan':
            has_nan = True
        else:
            if d[2] == 0:
                if d[1]:
                    has_nz = True
                else:
                    has_pz = True
            vals.add(signed_value(d))
    return sorted(vals), has_inf, has_nan, has_nz, has_pz


def efloat_params(es, nbits, enable_inf, nan_kind, eoffset):
    """
    (p, expmin, pos_max) of the format from the layout alone.
    pos_max is found by decoding the few top magnitude codes, so this works
    for large nbits too.
    """
    m = nbits - 1 - es
    p = m + 1
    bias = ((1 << (es - 1)) - 1 if es >= 1 else 0) - eoffset
    expmin = 1 - bias - m
    top = (1 << (nbits - 1)) - 1
    pos_max = Fraction(0)
    code = top
    # walk down over special codes (for IEEE the whole top binade is special)
    if nan_kind == IEEE_754:
        code = ((((1 << es) - 1) - 1) << m) | ((1 << m) - 1) if es >= 1 else top
    while code >= 0:
        d = decode_efloat(es, nbits, enable_inf, nan_kind, eoffset, code)
        if d[0] == 'fin':
            pos_max = d[2]
            break
        code -= 1
    return p, expmin, pos_max
