"""
Operand generation for rounding checks: every breakpoint of the piecewise
constant rounding function of a (small) format, each in several presentations.
Works from the oracle's `Fmt` description only.
"""
from __future__ import annotations

import math
from fractions import Fraction

from fpy2.number import Float, RealFloat

from ..oracle.rnd import Fmt, ilog2, neighbours, pow2


def representable_mags(fd: Fmt, limit: int = 400):
    """
    Sorted magnitudes of members of the exponent-unbounded format inside a
    window: from the smallest positive member up to just past pos_max (or a
    few binades when unbounded).
    """
    out = []
    if fd.p is None:
        u = pow2(fd.expmin)
        top = max(fd.pos_max or 0, -(fd.neg_max or 0)) if fd.pos_max is not None else None
        if top is None or top == 0:
            n = 12
        else:
            n = int(top / u) + 3
        n = min(n, limit)
        return [k * u for k in range(1, n + 1)]
    # float-like
    P = 1 << fd.p
    vals = set()
    if fd.expmin is not None:
        q = fd.expmin
        for k in range(1, P):          # subnormals and the first normal binade
            vals.add(k * pow2(q))
        q += 1
    else:
        q = -3 - (fd.p - 1)            # first binade has normalized exponent -3
    if fd.pos_max is not None:
        top = max(fd.pos_max, -(fd.neg_max or 0))
        qtop = ((ilog2(top) if top > 0 else q + fd.p) - fd.p + 1) + 2
    else:
        qtop = q + 6
    while q <= qtop and len(vals) < limit:
        for k in range(P >> 1, P):
            vals.add(k * pow2(q))
        q += 1
    return sorted(vals)[:limit]


def breakpoints(fd: Fmt, dense: bool = True):
    """
    Signed finite Fractions covering every breakpoint of the window, plus
    out-of-range and tiny values.  Deterministic.
    """
    mags = representable_mags(fd)
    pts = set()
    prev = Fraction(0)
    for m in mags:
        u = m - prev
        pts.add(m)
        mid = (m + prev) / 2
        pts.add(mid)
        if dense:
            for d in (Fraction(1, 8), Fraction(1, 3) * Fraction(1, 4), Fraction(1, 1 << 20)):
                pts.add(mid - u * d)
                pts.add(mid + u * d)
                pts.add(prev + u * d)
                pts.add(m - u * d)
        else:
            pts.add(mid + u / 8)
            pts.add(prev + u / 5)
        prev = m
    if mags:
        top = mags[-1]
        pts.update([top * 2, top * 4 + top / 3, top * (1 << 40), Fraction(1 << 300)])
        small = mags[0]
        pts.update([small / 2, small / 4, small * Fraction(3, 4), small / 2 + small / (1 << 12),
                    small / 2 - small / (1 << 12), small / (1 << 60), Fraction(1, 1 << 300)])
    if fd.pos_max is not None and fd.pos_max > 0:
        # around the overflow threshold
        lo, hi, q, k = neighbours(fd, fd.pos_max)
        u = pow2(q)
        for t in (fd.pos_max, fd.pos_max + u / 2, fd.pos_max + u / 2 - u / 64, fd.pos_max + u / 2 + u / 64,
                  fd.pos_max + u, fd.pos_max + u / 3, fd.pos_max + u * 2, fd.pos_max - u / 2, fd.pos_max + u * Fraction(7, 8)):
            pts.add(t)
    if fd.neg_max is not None and fd.neg_max < 0 and (fd.pos_max is None or -fd.neg_max != fd.pos_max):
        a = -fd.neg_max
        lo, hi, q, k = neighbours(fd, a)
        u = pow2(q)
        for t in (a, a + u / 2, a + u / 2 - u / 64, a + u / 2 + u / 64, a + u, a + u / 3, a - u / 2):
            pts.add(t)
    out = []
    for v in sorted(pts):
        if v > 0:
            out.append(v)
            out.append(-v)
    return out


def is_dyadic(v: Fraction) -> bool:
    d = v.denominator
    return d & (d - 1) == 0


def presentations(v: Fraction, all_forms: bool = True):
    """
    Different operand objects denoting the finite non-zero rational v.
    Yields (kind, object).
    """
    if not is_dyadic(v):
        yield 'Fraction', v
        return
    n, d = abs(v.numerator), v.denominator
    exp = -(d.bit_length() - 1)
    while n and n % 2 == 0 and exp < 0:
        n //= 2
        exp += 1
    if exp == 0:
        while n % 2 == 0:
            n //= 2
            exp += 1
    neg = v < 0
    yield 'RealFloat', RealFloat(s=neg, c=n, exp=exp)
    if not all_forms:
        return
    yield 'Float', Float(s=neg, c=n << 3, exp=exp - 3)
    yield 'Fraction', v
    if v.denominator == 1 and abs(v.numerator) < (1 << 80):
        yield 'int', int(v)
    try:
        f = float(v)
        if Fraction(f) == v:
            yield 'float', f
    except OverflowError:
        pass


def specials():
    """(kind, object, value tuple)"""
    return [
        ('Float+0', Float(c=0, exp=0), ('fin', False, Fraction(0))),
        ('Float-0', Float(s=True, c=0, exp=5), ('fin', True, Fraction(0))),
        ('RealFloat-0', RealFloat(s=True, c=0, exp=-7), ('fin', True, Fraction(0))),
        ('float-0', -0.0, ('fin', True, Fraction(0))),
        ('float+0', 0.0, ('fin', False, Fraction(0))),
        ('int0', 0, ('fin', False, Fraction(0))),
        ('Fraction0', Fraction(0), ('fin', False, Fraction(0))),
        ('Float+inf', Float(isinf=True), ('inf', False)),
        ('Float-inf', Float(s=True, isinf=True), ('inf', True)),
        ('float+inf', math.inf, ('inf', False)),
        ('float-inf', -math.inf, ('inf', True)),
        ('FloatNaN', Float(isnan=True), ('nan',)),
        ('Float-NaN', Float(s=True, isnan=True), ('nan',)),
        ('floatNaN', math.nan, ('nan',)),
    ]
