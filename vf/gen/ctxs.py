"""
Enumerates rounding contexts of every family.  Yields (text, ctx) where text
is Python source (evaluated in `NS`) that rebuilds the context -- replays keep
the text.
"""
from __future__ import annotations

import itertools
import random

import fpy2 as fp
from fpy2.number import (
    EFloatContext, EFloatNanKind, ExpContext, FixedContext, IEEEContext,
    MPBFixedContext, MPBFloatContext, MPFixedContext, MPFloatContext,
    MPSFloatContext, SMFixedContext, Float, RealFloat, RM, OV,
)

from ..oracle import layout

NS = {
    'EFloatContext': EFloatContext, 'EFloatNanKind': EFloatNanKind, 'ExpContext': ExpContext,
    'FixedContext': FixedContext, 'IEEEContext': IEEEContext, 'MPBFixedContext': MPBFixedContext,
    'MPBFloatContext': MPBFloatContext, 'MPFixedContext': MPFixedContext,
    'MPFloatContext': MPFloatContext, 'MPSFloatContext': MPSFloatContext,
    'SMFixedContext': SMFixedContext, 'Float': Float, 'RealFloat': RealFloat,
    'RM': RM, 'OV': OV, 'fp': fp, 'REAL': fp.REAL,
}

MODES = ['RNE', 'RNA', 'RTP', 'RTN', 'RTZ', 'RAZ', 'RTO', 'RTE']
NAN_KINDS = ['IEEE_754', 'MAX_VAL', 'NEG_ZERO', 'NONE']


def build(text: str):
    return eval(text, dict(NS))


def _rf(m: int, exp: int) -> str:
    return f'RealFloat(m={m}, exp={exp})'


def _fl(m: int, exp: int, s: bool | None = None) -> str:
    if s is None:
        return f'Float(m={m}, exp={exp})'
    return f'Float(s={s}, c={abs(m)}, exp={exp})'


def efloat_formats(max_nbits: int, eoffsets=(0,), min_nbits: int = 1):
    for nbits in range(min_nbits, max_nbits + 1):
        for es in range(0, nbits):
            for inf in (False, True):
                for nk in range(4):
                    if not layout.efloat_valid(es, nbits, inf, nk):
                        continue
                    for eo in eoffsets:
                        yield es, nbits, inf, nk, eo


def format_texts(tier: str, families=None):
    """
    Yields (family, template) where template has `{rm}` and `{ov}` holes and
    a tuple of overflow modes the family accepts.
    """
    quick = tier == 'quick'
    out = []

    def add(fam, tmpl, ovs):
        if families is None or fam in families:
            out.append((fam, tmpl, ovs))

    # IEEE
    for es in range(1, 5 if quick else 6):
        for nbits in range(es + 2, (7 if quick else 10)):
            add('ieee', f'IEEEContext({es}, {nbits}, RM.{{rm}}, OV.{{ov}})', ('OVERFLOW', 'SATURATE', 'ASSERT'))
    # EFloat
    eoffs = (0, -1, 2) if quick else (0, -2, -1, 1, 3)
    for (es, nbits, inf, nk, eo) in efloat_formats(5 if quick else 7, eoffs):
        base = f'EFloatContext({es}, {nbits}, {inf}, EFloatNanKind.{NAN_KINDS[nk]}, {eo}, RM.{{rm}}, OV.{{ov}}'
        add('efloat', base + ')', ('OVERFLOW', 'SATURATE', 'ASSERT'))
        # substitutes
        if nbits >= 3 and eo == 0:
            if nk == layout.NONE:
                add('efloat', base + ', nan_value=Float(c=0, exp=0))', ('OVERFLOW',))
                add('efloat', base + ', nan_value=Float(s=True, c=0, exp=0))', ('OVERFLOW',))
            if not inf and nk != layout.NONE:
                add('efloat', base + ', inf_value=Float(c=0, exp=0))', ('OVERFLOW', 'SATURATE'))
    # MPFloat
    for p in range(1, 5 if quick else 8):
        add('mp', f'MPFloatContext({p}, RM.{{rm}})', ('-',))
    add('mp', 'MPFloatContext(3, RM.{rm}, enable_nan=False, enable_inf=False)', ('-',))
    add('mp', 'MPFloatContext(2, RM.{rm}, enable_nan=False, enable_inf=False, nan_value=Float(c=1, exp=0), inf_value=Float(c=3, exp=2))', ('-',))
    add('mp', 'MPFloatContext(2, RM.{rm}, enable_nan=False, enable_inf=True, nan_value=Float(isinf=True))', ('-',))
    # MPSFloat
    for p in range(1, 4 if quick else 6):
        for emin in ((-2, 0, 1) if quick else (-3, -2, -1, 0, 1, 2)):
            add('mps', f'MPSFloatContext({p}, {emin}, RM.{{rm}})', ('-',))
    add('mps', 'MPSFloatContext(3, -1, RM.{rm}, enable_nan=False, enable_inf=False, nan_value=Float(c=0, exp=0), inf_value=Float(c=1, exp=-3))', ('-',))
    # MPBFloat: maxvals at top of binade, mid binade, power of two, asymmetric
    for p in range(1, 4 if quick else 5):
        for emin in ((-1, 1) if quick else (-2, -1, 0, 1)):
            tops = set()
            for de in (0, 1, 2):
                e = emin + de
                tops.add(((1 << p) - 1, e - p + 1))      # all ones in binade e
                tops.add((1 << (p - 1), e - p + 1))      # power of two
                if p >= 2:
                    tops.add(((1 << (p - 1)) + 1, e - p + 1))
            for (m, exp) in sorted(tops):
                add('mpb', f'MPBFloatContext({p}, {emin}, {_rf(m, exp)}, RM.{{rm}}, OV.{{ov}})', ('OVERFLOW', 'SATURATE', 'ASSERT'))
            # asymmetric
            add('mpb', f'MPBFloatContext({p}, {emin}, {_rf((1 << p) - 1, emin + 1 - p + 1)}, RM.{{rm}}, OV.{{ov}}, neg_maxval={_rf(-(1 << (p - 1)), emin - p + 1)})', ('OVERFLOW', 'SATURATE'))
    add('mpb', f'MPBFloatContext(3, -1, {_rf(7, 0)}, RM.{{rm}}, OV.{{ov}}, enable_inf=False, enable_nan=False, nan_value=Float(c=0, exp=0), inf_value=Float(c=7, exp=0))', ('OVERFLOW', 'SATURATE'))
    add('mpb', f'MPBFloatContext(3, -1, {_rf(7, 0)}, RM.{{rm}}, OV.{{ov}}, enable_inf=False)', ('OVERFLOW',))
    # MPFixed
    for nmin in ((-3, -1, 1) if quick else (-4, -3, -2, -1, 0, 1, 2)):
        add('mpfixed', f'MPFixedContext({nmin}, RM.{{rm}})', ('-',))
        add('mpfixed', f'MPFixedContext({nmin}, RM.{{rm}}, enable_neg_zero=False)', ('-',))
    add('mpfixed', 'MPFixedContext(-2, RM.{rm}, enable_nan=True, enable_inf=True)', ('-',))
    add('mpfixed', 'MPFixedContext(-2, RM.{rm}, nan_value=Float(c=0, exp=0), inf_value=Float(s=True, c=5, exp=-1))', ('-',))
    add('mpfixed', 'MPFixedContext(-1, RM.{rm}, enable_nan=True, inf_value=Float(isnan=True))', ('-',))
    # MPBFixed
    for nmin in ((-2, 0) if quick else (-3, -2, -1, 0, 1)):
        for c in (1, 5, 8):
            add('mpbfixed', f'MPBFixedContext({nmin}, {_rf(c, nmin + 1)}, RM.{{rm}}, OV.{{ov}})', ('OVERFLOW', 'SATURATE', 'WRAP', 'ASSERT'))
        add('mpbfixed', f'MPBFixedContext({nmin}, {_rf(6, nmin + 1)}, RM.{{rm}}, OV.{{ov}}, neg_maxval={_rf(-3, nmin + 1)}, enable_neg_zero=False)', ('OVERFLOW', 'SATURATE', 'WRAP'))
        add('mpbfixed', f'MPBFixedContext({nmin}, {_rf(6, nmin + 1)}, RM.{{rm}}, OV.{{ov}}, enable_inf=True, enable_nan=True)', ('OVERFLOW',))
        add('mpbfixed', f'MPBFixedContext({nmin}, {_rf(6, nmin + 1)}, RM.{{rm}}, OV.{{ov}}, inf_value=Float(c=2, exp={nmin + 1}), nan_value=Float(c=0, exp=0))', ('OVERFLOW',))
    # Fixed
    for signed in (True, False):
        for scale in ((-2, 0, 1) if quick else (-3, -2, -1, 0, 1, 2)):
            for nbits in ((2, 3, 5) if quick else (1, 2, 3, 4, 5, 6)):
                if signed and nbits < 2:
                    continue
                add('fixed', f'FixedContext({signed}, {scale}, {nbits}, RM.{{rm}}, OV.{{ov}})', ('OVERFLOW', 'SATURATE', 'WRAP', 'ASSERT'))
    add('fixed', 'FixedContext(True, -1, 4, RM.{rm}, OV.{ov}, nan_value=Float(c=0, exp=0), inf_value=Float(c=7, exp=-1))', ('OVERFLOW', 'WRAP'))
    # SMFixed
    for scale in ((-2, 1) if quick else (-3, -1, 0, 2)):
        for nbits in ((2, 4) if quick else (2, 3, 4, 6)):
            add('smfixed', f'SMFixedContext({scale}, {nbits}, RM.{{rm}}, OV.{{ov}})', ('OVERFLOW', 'SATURATE', 'WRAP', 'ASSERT'))
    # Exp
    for nbits in ((1, 2, 3) if quick else (1, 2, 3, 4, 5)):
        for eo in ((0, -2) if quick else (-2, -1, 0, 1, 2)):
            add('exp', f'ExpContext({nbits}, {eo}, RM.{{rm}}, OV.{{ov}})', ('OVERFLOW', 'SATURATE'))
    add('exp', 'ExpContext(3, 0, RM.{rm}, OV.{ov}, inf_value=Float(c=1, exp=2))', ('OVERFLOW',))
    return out


def contexts(tier: str, families=None, modes=MODES):
    """Yields (family, text) for every (format, mode, overflow) combination."""
    for fam, tmpl, ovs in format_texts(tier, families):
        for ov in ovs:
            for rm in modes:
                yield fam, tmpl.format(rm=rm, ov=ov if ov != '-' else 'OVERFLOW')


BIG = [
    'fp.FP16', 'fp.FP32', 'fp.FP64', 'fp.FP128', 'fp.BF16', 'fp.TF32', 'fp.S1E5M2', 'fp.S1E4M3',
    'fp.MX_E5M2', 'fp.MX_E4M3', 'fp.MX_E3M2', 'fp.MX_E2M3', 'fp.MX_E2M1', 'fp.MX_E8M0', 'fp.MX_INT8',
    'fp.FP8P1', 'fp.FP8P2', 'fp.FP8P3', 'fp.FP8P4', 'fp.FP8P5', 'fp.FP8P6', 'fp.FP8P7',
    'fp.INTEGER', 'fp.SINT8', 'fp.SINT16', 'fp.SINT32', 'fp.SINT64', 'fp.UINT8', 'fp.UINT16', 'fp.UINT32', 'fp.UINT64',
]


def big_contexts(modes=MODES):
    for name in BIG:
        ctx = build(name)
        for rm in modes:
            try:
                yield 'named', f'{name}.with_params(rm=RM.{rm})'
            except Exception:
                pass
