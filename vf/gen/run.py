"""
Running FPy functions from the harness: structural normalisation of results,
a wall-clock watchdog per call (its firing is *inconclusive*, never a verdict),
scratch directories outside /repo and /verif.
"""
from __future__ import annotations

import copy
import math
import os
import shutil
import signal
import tempfile
from fractions import Fraction


class CallTimeout(BaseException):
    pass


def _alarm(signum, frame):
    raise CallTimeout()


def norm(v):
    """Structural, comparable form of a result: numbers by denotation (sign of zero kept, NaN == NaN)."""
    from fpy2.number import Float, RealFloat
    if isinstance(v, bool):
        return ('b', v)
    if isinstance(v, Float):
        if v.isnan:
            return ('n', 'nan')
        if v.isinf:
            return ('n', '-inf' if v.s else '+inf')
        f = v.as_rational()
        return ('n', bool(v.s) if f == 0 else (f < 0), abs(f))
    if isinstance(v, RealFloat):
        f = v.as_rational()
        return ('n', bool(v.s) if f == 0 else (f < 0), abs(f))
    if isinstance(v, int):
        return ('n', v < 0, Fraction(abs(v)))
    if isinstance(v, float):
        if math.isnan(v):
            return ('n', 'nan')
        if math.isinf(v):
            return ('n', '-inf' if v < 0 else '+inf')
        return ('n', math.copysign(1.0, v) < 0, abs(Fraction(v)))
    if isinstance(v, Fraction):
        return ('n', v < 0, abs(v))
    if isinstance(v, list):
        return ('l', tuple(norm(x) for x in v))
    if isinstance(v, tuple):
        return ('t', tuple(norm(x) for x in v))
    if v is None:
        return ('none',)
    return ('?', repr(v)[:80])


def show(nv) -> str:
    """short printable form of a normalised value"""
    if nv[0] == 'b':
        return str(nv[1])
    if nv[0] == 'n':
        if len(nv) == 2:
            return nv[1]
        return ('-' if nv[1] else '+') + str(nv[2])
    if nv[0] in ('l', 't'):
        o, c = ('[', ']') if nv[0] == 'l' else ('(', ')')
        return o + ', '.join(show(x) for x in nv[1]) + c
    return str(nv)


def call(fn, args, ctx=None, timeout: float = 5.0, use_ctx_kw: bool = True):
    """
    -> ('ok', normalised value) | ('exc', class name, message) | ('timeout',)
    Arguments are deep-copied first (the harness never lets one run see another's mutations).
    """
    a = copy.deepcopy(args)
    old = signal.signal(signal.SIGALRM, _alarm)
    signal.setitimer(signal.ITIMER_REAL, timeout)
    try:
        if ctx is not None or use_ctx_kw:
            r = fn(*a, ctx=ctx) if ctx is not None else fn(*a)
        else:
            r = fn(*a)
        return ('ok', norm(r))
    except CallTimeout:
        return ('timeout',)
    except RecursionError as e:
        return ('exc', 'RecursionError', '')
    except Exception as e:
        return ('exc', type(e).__name__, str(e)[:200])
    finally:
        signal.setitimer(signal.ITIMER_REAL, 0)
        signal.signal(signal.SIGALRM, old)


def guarded(thunk, timeout: float = 20.0):
    """run thunk() under the watchdog -> ('ok', value) | ('exc', exception) | ('timeout',)"""
    old = signal.signal(signal.SIGALRM, _alarm)
    signal.setitimer(signal.ITIMER_REAL, timeout)
    try:
        return ('ok', thunk())
    except CallTimeout:
        return ('timeout',)
    except Exception as e:
        return ('exc', e)
    finally:
        signal.setitimer(signal.ITIMER_REAL, 0)
        signal.signal(signal.SIGALRM, old)


class Scratch:
    """scratch directory outside /repo and /verif, on sys.path while open, removed afterwards"""

    def __init__(self, prefix='vf-prog-'):
        self.prefix = prefix
        self.path = None

    def __enter__(self):
        import sys
        base = os.environ.get('VERIF_SCRATCH') or tempfile.gettempdir()
        self.path = tempfile.mkdtemp(prefix=self.prefix, dir=base)
        sys.path.insert(0, self.path)
        return self.path

    def __exit__(self, *a):
        import sys
        try:
            sys.path.remove(self.path)
        except ValueError:
            pass
        shutil.rmtree(self.path, ignore_errors=True)


class StepLimit(Exception):
    pass


def count_steps(fn, args, ctx=None, cap: int = 5_000_000, timeout: float = 120.0):
    """
    Logical run length: the number of Python line events (interpreter and library frames alike) the call executes.
    -> ('ok', steps) | ('limit', cap) | ('exc', name, steps) | ('timeout',)
    A deterministic substitute for a wall-clock verdict: "the transformed program runs more than K times the steps of the
    original" does not depend on machine load.  The wall-clock watchdog around it only makes the measurement inconclusive.
    """
    import sys
    a = copy.deepcopy(args)
    n = [0]

    def tracer(frame, event, arg):
        if event == 'line':
            n[0] += 1
            if n[0] > cap:
                raise StepLimit()
        return tracer
    old = signal.signal(signal.SIGALRM, _alarm)
    signal.setitimer(signal.ITIMER_REAL, timeout)
    sys.settrace(tracer)
    try:
        fn(*a, ctx=ctx) if ctx is not None else fn(*a)
        return ('ok', n[0])
    except StepLimit:
        return ('limit', cap)
    except CallTimeout:
        return ('timeout',)
    except RecursionError:
        return ('exc', 'RecursionError', n[0])
    except Exception as e:
        return ('exc', type(e).__name__, n[0])
    finally:
        sys.settrace(None)
        signal.setitimer(signal.ITIMER_REAL, 0)
        signal.signal(signal.SIGALRM, old)
