"""
Program generator: emits FPy *source text* (modules with helper functions and
one main function `f`) from a seeded RNG over a typed grammar with scope
tracking, plus argument tuples for them.

Types: 'R' real, 'B' bool, 'L' list[R], 'LL' list[list[R]], 'T' tuple[R, R].

Programs are well scoped by construction following the language guide: names
introduced inside a loop body or a one-armed `if` are not used afterwards;
names introduced in both arms of an `if/else` are; a `with` body's names are.
Profiles switch grammar features on and off per consumer.
"""
from __future__ import annotations

import importlib.util
import math
import os
import random
import sys
from dataclasses import dataclass, field
from fractions import Fraction

HEADER = '''import fpy2 as fp
from fpy2 import *

C3 = fp.MPFloatContext(3)
C5 = fp.MPFloatContext(5, fp.RM.RTZ)
S4 = fp.MPSFloatContext(4, -3, fp.RM.RTP)
F8 = fp.IEEEContext(4, 8)
F8N = fp.IEEEContext(4, 8, fp.RM.RTN)
FX = fp.FixedContext(True, -2, 10, fp.RM.RNE, fp.OV.SATURATE)
MF = fp.MPFixedContext(-3, fp.RM.RNA)
F32P = fp.FP32.with_params(rm=fp.RM.RTP)
K2 = 2
K3 = 3
KZ = -0.0
ctx = fp.IEEEContext(5, 16)
ctx1 = fp.MPFloatContext(6)
'''

CLOSURES = '''
def _make_scale(kk):
    @fp.fpy
    def scale(z):
        return z * kk
    return scale

d2 = _make_scale(2)
d3 = _make_scale(3)
'''

# named contexts usable in `with`: (text, exact_only) -- exact_only: only + - * / neg abs min max and comparisons inside
CONTEXTS = [
    ('C3', False), ('C5', False), ('S4', False), ('F8', False), ('F8N', False), ('FX', False), ('MF', False),
    ('fp.FP32', False), ('fp.FP64', False), ('fp.FP16', False),
    ('fp.REAL', True), ('fp.INTEGER', False),
    ('fp.IEEEContext(5, 16)', False), ('fp.MPFloatContext(4, fp.RM.RAZ)', False),
    ('F32P', False), ('fp.FixedContext(True, -4, 12)', False),
]

DEFAULT_PROFILE = dict(
    args=('R', 'R', 'L'),          # argument types of f (may be overridden per program)
    max_stmts=9, max_depth=3, expr_depth=3,
    w_assign=5, w_aug=2, w_tuple=1, w_index_assign=2, w_if=3, w_if1=2, w_for=3, w_while=1, w_with=3,
    w_assert=0.5, w_early_return=1, w_alias=1, w_listdef=1.5, w_call=1.5, w_copy=1, w_const=1, w_tuplelist=0,
    helpers=2, helper_ctx_prob=0.4, mutate_helper_prob=0.4,
    real_ops=('+', '-', '*', '/', 'neg', 'abs', 'sqrt', 'fma', 'min', 'max', 'round', 'floor', 'ceil', 'trunc', 'ifexpr', 'index', 'len', 'sum', 'call'),
    contexts=CONTEXTS, computed_ctx_prob=0.15, as_alias_prob=0.2,
    comprehension=True, slices=True, zip_enum=True, nested_lists=True, ret_types=('R', 'R', 'R', 'B', 'T', 'L'),
    literal_pool=('0', '1', '2', '3', '0.5', '1.5', '0.1', '-1', '4', '0.25', '7', '-2.5', '10', '100', '0.001', '3.75', '1e3', '-0.0'),
)


def profile(**kw):
    p = dict(DEFAULT_PROFILE)
    p.update(kw)
    return p


@dataclass
class Program:
    source: str
    arg_types: tuple
    min_len: dict            # list arg index -> minimal length needed by constant indices
    ret_type: str
    helper_names: list
    features: set = field(default_factory=set)
    name: str = 'f'


class _Scope:
    def __init__(self, parent=None):
        self.vars = {} if parent is None else dict(parent.vars)

    def of(self, t):
        return [v for v, vt in self.vars.items() if vt == t]


class Gen:
    def __init__(self, rng: random.Random, prof: dict):
        self.rng = rng
        self.p = prof
        self.lines: list[str] = []
        self.counter = 0
        self.helpers: list[tuple] = []     # (name, arg types, ret type, mutates_list)
        self.features: set = set()
        self.min_len: dict = {}
        self.list_len: dict = {}           # local list var -> known constant length (or None)
        self.exact_only = False
        self.loop_depth = 0
        self.in_helper = False
        self.cur_args: list = []
        self._used_names: set = set()
        self.in_derived_iter = 0

    # -- utilities ------------------------------------------------------------
    def fresh(self, prefix='v'):
        self.counter += 1
        hostile = self.p.get('hostile_names')
        if hostile and prefix in ('v', 'e', 'i', 'k') and self.rng.random() < self.p.get('hostile_prob', 0.25):
            free = [h for h in hostile if h not in self._used_names]
            if free:
                nm = self.rng.choice(free)
                self._used_names.add(nm)
                return nm
        return f'{prefix}{self.counter}'

    def emit(self, ind, text):
        self.lines.append('    ' * ind + text)

    def wchoice(self, items):
        tot = sum(w for w, _ in items)
        r = self.rng.random() * tot
        for w, it in items:
            r -= w
            if r <= 0:
                return it
        return items[-1][1]

    # -- expressions -------------------------------------------------------------
    def lit(self):
        return self.rng.choice(self.p['literal_pool'])

    def real(self, sc: _Scope, d: int) -> str:
        rng = self.rng
        vars_r = sc.of('R')
        if d <= 0 or rng.random() < 0.25:
            if vars_r and rng.random() < 0.7:
                return rng.choice(vars_r)
            return self.lit()
        ops = list(self.p['real_ops'])
        if self.exact_only:
            ops = [o for o in ops if o in ('+', '-', '*', 'neg', 'abs', 'min', 'max', 'ifexpr', 'index', 'len')]
        op = rng.choice(ops)
        a = lambda: self.real(sc, d - 1)
        extra = self.p.get('extra_ops')
        if extra and not self.exact_only and rng.random() < self.p.get('extra_prob', 0.2):
            # the rest of the language's numeric builtins (parser tables): operands rounded first, because the engines
            # do not offer most of them for non-dyadic rationals
            x = rng.choice(extra)
            self.features.add('x:' + x)
            ra = lambda: (f'fp.round({a()})' if rng.random() < 0.7 else a())
            if x in ('cbrt', 'roundint', 'nearbyint', 'fabs'):
                return f'fp.{x}({ra()})'
            if x in ('copysign', 'fdim', 'fmod', 'remainder', 'hypot', 'fmin', 'fmax'):
                return f'fp.{x}({ra()}, {ra()})'
            if x == 'mod':
                return f'({ra()} % {ra()})'
            if x == 'powop':
                return f'({ra()} ** {rng.choice(["2", "3", "0", "1", "-1", "-2", "4"])})'
            if x == 'pow':
                return f'fp.pow({ra()}, {rng.choice(["2", "3", "0", "-1", "5"])})'
            if x == 'nan':
                return 'fp.nan()'
            if x == 'inf':
                return rng.choice(['fp.inf()', '(-fp.inf())'])
            if x == 'round_exact':
                return f'fp.round_exact(fp.round({a()}))'
            if x == 'logb':
                return f'fp.logb({ra()})'
            if x == 'fst':
                return f'fp.fst(({a()}, {a()}))'
            if x == 'snd':
                return f'fp.snd(({a()}, {a()}))'
            if x == 'round_at':
                return f'fp.round_at({a()}, {rng.choice(["-1", "0", "1", "-3", "2"])})'
        if op in ('+', '-', '*', '/'):
            self.features.add('op' + op)
            return f'({a()} {op} {a()})'
        if op == 'neg':
            return f'(-{a()})'
        if op == 'abs':
            return f'abs({a()})'
        if op == 'sqrt':
            # literals are exact rationals and sqrt of a non-dyadic rational is not offered: round first
            return f'fp.sqrt(fp.round(abs({a()})))' if rng.random() < 0.8 else f'fp.sqrt({a()})'
        if op == 'fma':
            return f'fp.fma({a()}, {a()}, {a()})'
        if op in ('min', 'max'):
            self.features.add(op)
            if rng.random() < 0.3 and sc.of('L'):
                xs = rng.choice(sc.of('L'))
                self.need_len(xs, 1)
                return f'{op}({xs})' if False else f'{op}({a()}, {a()})'
            return f'{op}({a()}, {a()})' if rng.random() < 0.8 else f'{op}({a()}, {a()}, {a()})'
        if op in ('round', 'floor', 'ceil', 'trunc'):
            self.features.add(op)
            return f'fp.{op}({a()})' if op != 'round' else f'fp.round({a()})'
        if op == 'ifexpr':
            self.features.add('ifexpr')
            return f'({a()} if {self.boolean(sc, d - 1)} else {a()})'
        if op == 'index':
            ls = sc.of('L')
            if ls:
                xs = rng.choice(ls)
                k = rng.choice([0, 0, 1, 2])
                self.need_len(xs, k + 1)
                self.features.add('index')
                return f'{xs}[{k}]'
            return a()
        if op == 'len':
            ls = sc.of('L') + sc.of('LL')
            if ls:
                self.features.add('len')
                return f'len({rng.choice(ls)})'
            return a()
        if op == 'sum':
            ls = sc.of('L')
            if ls:
                self.features.add('sum')
                return f'sum({rng.choice(ls)})'
            return a()
        if op == 'call':
            mh = [h for h in self.helpers if h[2] == 'R' and h[3] and h[1] == ('L', 'R')]
            if mh and sc.of('L') and not self.in_helper and rng.random() < self.p.get('mutating_call_in_expr_prob', 0):
                # a call that writes its list argument, next to operands that read the same list
                h = rng.choice(mh)
                xs = rng.choice(sc.of('L'))
                self.need_len(self._root(xs), 1)
                self.need_len(xs, 1)
                self.features.add('call')
                self.features.add('call_mutates_in_expr')
                if self.in_derived_iter:
                    self.features.add('derived_iter_body_writes')
                return f'{h[0]}({xs}, {a()})'
            hs = [h for h in self.helpers if h[2] == 'R' and not h[3] and all(t == 'R' for t in h[1])]
            if hs and (not self.in_helper or self.p.get('helper_chain')):
                h = rng.choice(hs)
                self.features.add('call')
                return f'{h[0]}({", ".join(a() for _ in h[1])})'
            return a()
        return a()

    def boolean(self, sc: _Scope, d: int) -> str:
        rng = self.rng
        vb = sc.of('B')
        if d <= 0 or rng.random() < 0.2:
            if vb and rng.random() < 0.6:
                return rng.choice(vb)
            return f'({self.real(sc, 0)} {rng.choice(["<", "<=", ">", ">=", "==", "!="])} {self.real(sc, 0)})'
        k = rng.random()
        preds = self.p.get('preds')
        if preds and rng.random() < self.p.get('pred_prob', 0.15):
            pr = rng.choice(preds)
            self.features.add('p:' + pr)
            return f'fp.{pr}({self.real(sc, d - 1)})'
        if rng.random() < self.p.get('reduce_prob', 0):
            red = self.reduction(sc)
            if red:
                return red
        if k < 0.45:
            op = rng.choice(['<', '<=', '>', '>=', '==', '!='])
            self.features.add('cmp' + op)
            return f'({self.real(sc, d - 1)} {op} {self.real(sc, d - 1)})'
        if k < 0.55:
            self.features.add('chain')
            return f'({self.real(sc, d - 1)} {rng.choice(["<", "<="])} {self.real(sc, d - 1)} {rng.choice(["<", "<=", "!="])} {self.real(sc, d - 1)})'
        if k < 0.7:
            self.features.add('and')
            return f'({self.boolean(sc, d - 1)} and {self.boolean(sc, d - 1)})'
        if k < 0.85:
            self.features.add('or')
            return f'({self.boolean(sc, d - 1)} or {self.boolean(sc, d - 1)})'
        if k < 0.93:
            self.features.add('not')
            return f'(not {self.boolean(sc, d - 1)})'
        return self.reduction(sc) or rng.choice(['True', 'False'])

    def reduction(self, sc: _Scope):
        """any / all over a comprehension (None when there is no list)"""
        rng = self.rng
        ls = sc.of('L')
        if not (ls and self.p['comprehension']):
            return None
        xs = rng.choice(ls)
        w = self.fresh('w')
        if sc.of('R') and rng.random() < self.p.get('comp_target_shadows_prob', 0):
            # the comprehension target has the name of a live outer variable (which it must leave alone)
            w = rng.choice(sc.of('R'))
            self.features.add('comp_target_shadows')
        sub = _Scope(sc)
        sub.vars[w] = 'R'
        fn = rng.choice(['any', 'all'])
        self.features.add(fn)
        if rng.random() < self.p.get('guarded_reduce_prob', 0):
            # the element can fault (an index past the end); a short-circuit operand in front of the reduction guards it
            ys = rng.choice(ls)
            n = rng.choice([1, 2, 3, 5])
            self.features.add('guarded_reduction')
            guard = f'({n} < len({ys}))'
            red = f'{fn}([({ys}[{n}] {rng.choice(["<", ">=", "!="])} {w}) for {w} in {xs}])'
            return f'({guard} and {red})' if rng.random() < 0.7 else f'((not {guard}) or {red})'
        return f'{fn}([{self.boolean(sub, 1)} for {w} in {xs}])'

    def listexpr(self, sc: _Scope, d: int):
        """returns (text, known length or None)"""
        rng = self.rng
        ls = sc.of('L')
        k = rng.random()
        if rng.random() < self.p.get('const_list_prob', 0):
            # a list of literals: statically known, so a constant folder is tempted to propagate it
            n = rng.choice([1, 2, 3])
            self.features.add('const_list')
            return '[' + ', '.join(rng.choice(self.p['literal_pool']) for _ in range(n)) + ']', n
        if k < 0.35 or not ls:
            n = rng.choice([1, 2, 3, 4])
            return '[' + ', '.join(self.real(sc, d - 1) for _ in range(n)) + ']', n
        xs = rng.choice(ls)
        if k < 0.65 and self.p['comprehension']:
            w = self.fresh('w')
            sub = _Scope(sc)
            sub.vars[w] = 'R'
            self.features.add('comprehension')
            if rng.random() < self.p.get('comp_iter_ifexpr_prob', 0):
                # the iterable is chosen by a comparison chain (which Python cannot lower to a walrus there)
                ys = rng.choice(ls)
                chain = f'{self.real(sc, 1)} {rng.choice(["<", "<=", "=="])} {self.real(sc, 1)} {rng.choice(["<", "<=", "!="])} {self.real(sc, 1)}'
                n1, n2 = self.list_len.get(xs), self.list_len.get(ys)
                self.features.add('comp_iterable_chain')
                return f'[{self.real(sub, max(d - 1, 1))} for {w} in ({xs} if {chain} else {ys})]', (n1 if n1 == n2 else None)
            return f'[{self.real(sub, max(d - 1, 1))} for {w} in {xs}]', self.list_len.get(xs)
        if k < 0.8 and self.p['slices']:
            self.features.add('slice')
            form = rng.random()
            if form < 0.4:
                return f'{xs}[:]', self.list_len.get(xs)
            if form < 0.7:
                self.need_len(xs, 1)
                L = self.list_len.get(xs)
                return f'{xs}[1:]', (L - 1 if L is not None else None)
            self.need_len(xs, 2)
            return f'{xs}[0:2]', 2
        return xs, self.list_len.get(xs)     # alias

    def need_len(self, xs, n):
        if xs in self.list_len and self.list_len[xs] is not None:
            # local list of known length: fine if long enough, else index 0 fallback is not possible -> require anyway
            pass
        self.min_len[xs] = max(self.min_len.get(xs, 0), n)

    # -- statements ------------------------------------------------------------------
    def block(self, sc: _Scope, ind: int, depth: int, budget: int, must_define=None) -> _Scope:
        n = self.rng.randint(1, max(1, budget))
        for _ in range(n):
            sc = self.stmt(sc, ind, depth)
        return sc

    def stmt(self, sc: _Scope, ind: int, depth: int) -> _Scope:
        p = self.p
        rng = self.rng
        choices = [(p['w_assign'], 'assign'), (p['w_aug'], 'aug'), (p['w_tuple'], 'tuple'), (p['w_listdef'], 'listdef'),
                   (p['w_index_assign'], 'idxassign'), (p['w_assert'], 'assert'), (p['w_alias'], 'alias'),
                   (p.get('w_copy', 0), 'copy'), (p.get('w_const', 0), 'const'), (p.get('w_freevar', 0), 'freevar'),
                   (p.get('w_tuplelist', 0), 'tuplelist')]
        if depth > 0:
            choices += [(p['w_if'], 'if'), (p['w_if1'], 'if1'), (p['w_for'], 'for'), (p['w_while'], 'while'), (p['w_with'], 'with'),
                        (p['w_early_return'], 'early')]
        if self.helpers and not self.in_helper:
            choices.append((p['w_call'], 'callstmt'))
        kind = self.wchoice(choices)
        return getattr(self, 's_' + kind)(sc, ind, depth)

    def s_assign(self, sc, ind, depth):
        rng = self.rng
        new = _Scope(sc)
        if rng.random() < 0.25:
            v = rng.choice(sc.of('B')) if sc.of('B') and rng.random() < 0.5 else self.fresh('b')
            self.emit(ind, f'{v} = {self.boolean(sc, 2)}')
            new.vars[v] = 'B'
            return new
        existing = sc.of('R')
        v = rng.choice(existing) if existing and rng.random() < 0.45 else self.fresh('v')
        self.emit(ind, f'{v} = {self.real(sc, self.p["expr_depth"])}')
        new.vars[v] = 'R'
        return new

    def s_copy(self, sc, ind, depth):
        """y = x (a plain copy; the source is often reassigned later)"""
        vs = sc.of('R')
        if not vs:
            return self.s_assign(sc, ind, depth)
        new = _Scope(sc)
        src = self.rng.choice(vs)
        v = self.fresh('v')
        self.features.add('copy')
        self.emit(ind, f'{v} = {src}')
        new.vars[v] = 'R'
        if self.rng.random() < 0.6:
            # redefine the source after the copy
            self.emit(ind, f'{src} = {self.real(new, 2)}')
            self.features.add('copy_then_redefine')
        return new

    def s_const(self, sc, ind, depth):
        """a foldable constant expression under the active context"""
        new = _Scope(sc)
        v = self.fresh('v')
        rng = self.rng
        a, b = self.lit(), self.lit()
        op = rng.choice(['+', '-', '*'] + ([] if self.exact_only else ['/']))
        form = rng.random()
        self.features.add('const')
        if form < 0.6 or self.exact_only:
            self.emit(ind, f'{v} = ({a} {op} {b})')
        elif form < 0.8:
            self.emit(ind, f'{v} = fp.round({a}) {op} fp.round({b})')
        else:
            self.emit(ind, f'{v} = fp.sqrt(fp.round({rng.choice(["2", "3", "0.5", "16", "0.1"])}))')
        new.vars[v] = 'R'
        return new

    def s_freevar(self, sc, ind, depth):
        if getattr(self, '_shadowing', False) and not self.in_helper:
            return self.s_assign(sc, ind, depth)
        new = _Scope(sc)
        v = self.fresh('v')
        self.features.add('free_var')
        self.emit(ind, f'{v} = ({self.rng.choice(["K2", "K3", "KZ"])} {self.rng.choice(["+", "*", "*"])} {self.real(sc, 1)})')
        new.vars[v] = 'R'
        return new

    def s_aug(self, sc, ind, depth):
        vs = sc.of('R')
        if not vs:
            return self.s_assign(sc, ind, depth)
        v = self.rng.choice(vs)
        op = self.rng.choice(['+=', '-=', '*='] + ([] if self.exact_only else ['/=']))
        self.features.add('aug')
        self.emit(ind, f'{v} {op} {self.real(sc, 2)}')
        return sc

    def s_tuple(self, sc, ind, depth):
        rng = self.rng
        new = _Scope(sc)
        a, b = self.fresh('v'), self.fresh('v')
        ts = sc.of('T')
        self.features.add('tuple')
        if ts and rng.random() < 0.5:
            self.emit(ind, f'{a}, {b} = {rng.choice(ts)}')
        elif rng.random() < 0.3:
            t = self.fresh('t')
            self.emit(ind, f'{t} = ({self.real(sc, 2)}, {self.real(sc, 2)})')
            new.vars[t] = 'T'
            self.emit(ind, f'{a}, {b} = {t}')
        else:
            self.emit(ind, f'{a}, {b} = ({self.real(sc, 2)}, {self.real(sc, 2)})')
        new.vars[a] = 'R'
        new.vars[b] = 'R'
        return new

    def s_tuplelist(self, sc, ind, depth):
        """a tuple that holds a list next to a scalar (or another list); the list is pulled out by destructuring,
        written through that alias and read back through the tuple"""
        rng = self.rng
        new = _Scope(sc)
        self.features.add('tuple_holding_list')
        self._alias_of = getattr(self, '_alias_of', {})

        def const_list():
            n = rng.choice([1, 2, 2, 3])
            return '[' + ', '.join(self.lit() for _ in range(n)) + ']', n

        def comp():
            r = rng.random()
            if r < 0.55:
                text, n = const_list()
                return 'L', text, n, None
            if r < 0.8 and sc.of('L'):
                src = rng.choice(sc.of('L'))
                return 'L', src, self.list_len.get(src), src
            if r < 0.9:
                text, n = self.listexpr(sc, 1)
                return 'L', text, n, (text if text in sc.vars else None)
            return 'L', *const_list(), None

        shape = rng.choice(['LR', 'LR', 'RL', 'LL'])
        parts = []
        for ch in shape:
            if ch == 'L':
                parts.append(comp())
            else:
                parts.append(('R', self.lit() if rng.random() < 0.6 else self.real(sc, 1), None, None))
        t = self.fresh('t')
        self.emit(ind, f'{t} = ({", ".join(pt[1] for pt in parts)})')
        new.vars[t] = 'T' + shape

        def destructure():
            names = []
            for pt in parts:
                if pt[0] == 'L':
                    v = self.fresh('ys')
                    new.vars[v] = 'L'
                    self.list_len[v] = pt[2]
                    if pt[3] is not None:
                        self._alias_of[v] = pt[3]
                    names.append(v)
                else:
                    v = self.fresh('v')
                    new.vars[v] = 'R'
                    names.append(v)
            self.emit(ind, f'{", ".join(names)} = {t}')
            return names

        first = destructure()
        for nm, pt in zip(first, parts):
            if pt[0] == 'L' and (pt[2] is None or pt[2] >= 1) and rng.random() < 0.8:
                if pt[2] is None:
                    self.need_len(self._root(nm), 1)
                    self.need_len(nm, 1)
                self.emit(ind, f'{nm}[0] = {self.real(new, 1)}')
                self.features.add('tuple_list_written_through_alias')
        if rng.random() < 0.8:
            second = destructure()
            for a, b, pt in zip(first, second, parts):
                if pt[0] == 'L':
                    self._alias_of[b] = a
        return new

    def s_listdef(self, sc, ind, depth):
        new = _Scope(sc)
        v = self.fresh('ys')
        text, n = self.listexpr(sc, 2)
        locals_l = [x for x in sc.of('L') if x.startswith('ys')]
        if locals_l and self.rng.random() < self.p.get('list_redefine_prob', 0):
            # rebind an existing local list (sizes then meet at branch merges and loop headers)
            v = self.rng.choice(locals_l)
            old = self.list_len.get(v)
            n = min(old, n) if (old is not None and n is not None) else None
            self.features.add('list_redefined')
        self.emit(ind, f'{v} = {text}')
        new.vars[v] = 'L'
        self.list_len[v] = n
        if n is not None and text.startswith('['):
            pass
        # alias of an argument keeps the argument's min_len bookkeeping
        if text in sc.vars:
            self.features.add('alias')
            self._alias_of = getattr(self, '_alias_of', {})
            self._alias_of[v] = text
        return new

    def s_alias(self, sc, ind, depth):
        ls = sc.of('L')
        if not ls:
            return self.s_listdef(sc, ind, depth)
        new = _Scope(sc)
        v = self.fresh('ys')
        src = self.rng.choice(ls)
        self.emit(ind, f'{v} = {src}')
        new.vars[v] = 'L'
        self.list_len[v] = self.list_len.get(src)
        self._alias_of = getattr(self, '_alias_of', {})
        self._alias_of[v] = src
        self.features.add('alias')
        return new

    def _root(self, xs):
        al = getattr(self, '_alias_of', {})
        seen = set()
        while xs in al and xs not in seen:
            seen.add(xs)
            xs = al[xs]
        return xs

    def s_idxassign(self, sc, ind, depth):
        ls = sc.of('L')
        if not ls:
            return self.s_assign(sc, ind, depth)
        xs = self.rng.choice(ls)
        L = self.list_len.get(xs)
        k = self.rng.choice([0, 0, 1])
        if L is not None and k >= L:
            k = 0
            if L == 0:
                return self.s_assign(sc, ind, depth)
        self.need_len(self._root(xs), k + 1)
        self.need_len(xs, k + 1)
        self.features.add('idxassign')
        if self.in_derived_iter:
            self.features.add('derived_iter_body_writes')
        self.emit(ind, f'{xs}[{k}] = {self.real(sc, 2)}')
        return sc

    def s_assert(self, sc, ind, depth):
        ls = sc.of('L')
        if ls and self.rng.random() < self.p.get('len_assert_prob', 0):
            a = self.rng.choice(ls)
            rhs = f'len({self.rng.choice(ls)})' if self.rng.random() < 0.5 else str(self.rng.choice([1, 2, 3]))
            self.features.add('len_assert')
            self.emit(ind, f'assert len({a}) == {rhs}')
            return sc
        v = self.real(sc, 1)
        self.features.add('assert')
        self.emit(ind, f'assert ({v} == {v}) or True')
        return sc

    def s_callstmt(self, sc, ind, depth):
        rng = self.rng
        h = rng.choice(self.helpers)
        new = _Scope(sc)
        args = []
        for t in h[1]:
            if t == 'R':
                args.append(self.real(sc, 2))
            elif t == 'L':
                ls = sc.of('L')
                if not ls:
                    return self.s_assign(sc, ind, depth)
                xs = rng.choice(ls)
                self.need_len(self._root(xs), 1)
                self.need_len(xs, 1)
                args.append(xs)
        v = rng.choice(sc.of('R')) if sc.of('R') and rng.random() < 0.4 else self.fresh('v')
        self.features.add('call')
        if h[3]:
            self.features.add('call_mutates')
            if self.in_derived_iter:
                self.features.add('derived_iter_body_writes')
        self.emit(ind, f'{v} = {h[0]}({", ".join(args)})')
        new.vars[v] = h[2]
        return new

    def s_if(self, sc, ind, depth):
        self.features.add('if')
        # one arm may end in a return: what follows the statement then sees only the other arm
        which = None
        if self.ret_type is not None and self.rng.random() < self.p.get('return_in_arm_prob', 0):
            which = self.rng.choice(['a', 'b'])
            self.features.add('return_in_arm')
        self.emit(ind, f'if {self.boolean(sc, 2)}:')
        a = self.block(_Scope(sc), ind + 1, depth - 1, 3)
        if which == 'a':
            self.emit(ind + 1, f'return {self.ret_expr(a)}')
        self.emit(ind, 'else:')
        b = self.block(_Scope(sc), ind + 1, depth - 1, 3)
        if which == 'b':
            self.emit(ind + 1, f'return {self.ret_expr(b)}')
        if which is not None:
            return _Scope(b if which == 'a' else a)
        new = _Scope(sc)
        for v, t in a.vars.items():
            if v in b.vars and b.vars[v] == t:
                new.vars[v] = t
        # a name defined in one arm only with the same name as an outer var keeps the outer type
        return new

    def s_if1(self, sc, ind, depth):
        self.features.add('if1')
        self.emit(ind, f'if {self.boolean(sc, 2)}:')
        self.block(_Scope(sc), ind + 1, depth - 1, 3)
        return sc

    def s_early(self, sc, ind, depth):
        if self.ret_type is None:
            return self.s_assign(sc, ind, depth)
        self.features.add('early_return')
        self.emit(ind, f'if {self.boolean(sc, 2)}:')
        self.emit(ind + 1, f'return {self.ret_expr(sc)}')
        return sc

    def s_for(self, sc, ind, depth):
        rng = self.rng
        self.features.add('for')
        body = _Scope(sc)
        ls = sc.of('L')
        k = rng.random()
        rebind = None
        if ls and k < 0.4:
            x = self.fresh('e')
            if sc.of('R') and rng.random() < self.p.get('shadow_target_prob', 0.15):
                # the loop target shadows (rebinds) an outer variable
                x = rng.choice(sc.of('R'))
                self.features.add('for_target_shadows')
            it = rng.choice(ls)
            self.emit(ind, f'for {x} in {it}:')
            body.vars[x] = 'R'
            if self.p['comprehension'] and rng.random() < self.p.get('loop_rebinds_iterable_prob', 0):
                # the body rebinds the variable it iterates over (to a list of the same length)
                rebind = f'{it} = [{rng.choice([f"({x} + q0)", "q0", "(q0 * 2)", f"max(q0, {x})"])} for q0 in {it}]'
        elif ls and k < 0.55 and self.p['zip_enum']:
            i, x = self.fresh('i'), self.fresh('e')
            self.features.add('enumerate')
            self.emit(ind, f'for {i}, {x} in enumerate({rng.choice(ls)}):')
            body.vars[i] = 'R'
            body.vars[x] = 'R'
        elif ls and k < 0.7 and self.p['zip_enum']:
            a, b = self.fresh('e'), self.fresh('e')
            xs = rng.choice(ls)
            self.features.add('zip')
            other = f'[{self.real(_with(sc, "q0"), 1)} for q0 in {xs}]' if self.p['comprehension'] and rng.random() < 0.5 else xs
            if rng.random() < self.p.get('zip_two_lists_prob', 0):
                # a strict zip of two unrelated lists (or of a list and a literal one): says their lengths agree -- where it runs
                others = [v for v in ls if v != xs]
                other = rng.choice(others) if others and rng.random() < 0.6 else '[' + ', '.join(self.lit() for _ in range(rng.choice([1, 2, 3]))) + ']'
                self.features.add('zip_two_lists')
            self.emit(ind, f'for {a}, {b} in zip({xs}, {other}):')
            body.vars[a] = 'R'
            body.vars[b] = 'R'
        elif sc.of('LL') and k < 0.8:
            row = self.fresh('row')
            self.features.add('nested_for')
            self.emit(ind, f'for {row} in {rng.choice(sc.of("LL"))}:')
            body.vars[row] = 'L'
            self.list_len[row] = None
        else:
            i = self.fresh('i')
            if ls and rng.random() < 0.5:
                self.features.add('range_len')
                self.emit(ind, f'for {i} in range(len({rng.choice(ls)})):')
            else:
                form = rng.random()
                if form < 0.6:
                    self.emit(ind, f'for {i} in range({rng.choice([0, 1, 2, 3, 4])}):')
                elif form < 0.85:
                    self.emit(ind, f'for {i} in range({rng.choice([0, 1])}, {rng.choice([2, 3, 5])}):')
                else:
                    self.features.add('range3')
                    self.emit(ind, f'for {i} in range(0, {rng.choice([4, 5, 7])}, {rng.choice([2, 3])}):')
            body.vars[i] = 'R'
        derived = 'zip(' in self.lines[-1] or 'enumerate(' in self.lines[-1]
        if sc.of('I') and rng.random() < self.p.get('loop_writes_int_arg_prob', 0):
            # the body rebinds an integer argument (a loop operator may have been handed it as a chunk size)
            self.emit(ind + 1, f'{rng.choice(sc.of("I"))} = {rng.choice([1, 2, 3])}')
            self.features.add('loop_writes_int_arg')
        if rebind is not None:
            self.emit(ind + 1, rebind)
            self.features.add('loop_rebinds_iterable')
        self.loop_depth += 1
        self.in_derived_iter += 1 if derived else 0
        self.block(body, ind + 1, depth - 1, 3)
        self.in_derived_iter -= 1 if derived else 0
        self.loop_depth -= 1
        return sc

    def s_while(self, sc, ind, depth):
        self.features.add('while')
        k = self.fresh('k')
        n = self.rng.choice([0, 1, 2, 3])
        self.emit(ind, f'{k} = 0')
        body = _Scope(sc)
        body.vars[k] = 'R'
        extra = f' and {self.boolean(body, 1)}' if self.rng.random() < self.p.get('while_extra_cond_prob', 0.3) else ''
        first = None
        if sc.of('L') and self.p['comprehension'] and self.rng.random() < self.p.get('while_reduce_cond_prob', 0):
            # the condition holds a reduction over a list that the body writes: it has to be evaluated again before every iteration
            xs = self.rng.choice(sc.of('L'))
            w = self.fresh('w')
            fn = self.rng.choice(['any', 'all'])
            self.need_len(self._root(xs), 1)
            self.need_len(xs, 1)
            extra = f' and {fn}([({w} {self.rng.choice(["<", ">=", "!=", "=="])} {self.real(sc, 1)}) for {w} in {xs}])'
            first = f'{xs}[0] = {self.real(sc, 2)}'
            n = self.rng.choice([2, 3, 4])
            self.features.add('while_cond_reduction_over_written_list')
        self.emit(ind, f'while {k} < {n}{extra}:')
        if first:
            self.emit(ind + 1, first)
        self.loop_depth += 1
        hide = _Scope(body)
        del hide.vars[k]           # the body must not reassign the counter
        inner = self.block(hide, ind + 1, depth - 1, 2)
        self.loop_depth -= 1
        self.emit(ind + 1, 'with fp.INTEGER:')
        self.emit(ind + 2, f'{k} = {k} + 1')
        new = _Scope(sc)
        new.vars[k] = 'R'
        return new

    def s_with(self, sc, ind, depth):
        rng = self.rng
        self.features.add('with')
        prev = self.exact_only
        if sc.of('I') and rng.random() < 0.5 and not self.exact_only:
            # a context only known at run time
            n = rng.choice(sc.of('I'))
            text, exact = rng.choice([f'fp.MPFloatContext({n})', f'fp.MPFloatContext({n} + 1)', f'fp.MPFixedContext(-{n})',
                                      f'fp.IEEEContext(4, {n} + 6)']), False
            self.features.add('runtime_ctx')
        elif rng.random() < self.p.get('local_ctx_param_prob', 0) and not self.exact_only:
            # a constructor argument held in a local variable that is a compile-time constant (and is rebound later)
            nv = self.fresh('n')
            self.emit(ind, f'{nv} = {rng.choice([3, 4, 5, 6])}')
            text, exact = rng.choice([f'fp.MPFloatContext({nv})', f'fp.IEEEContext({nv}, 16)', f'fp.MPFixedContext(-{nv})']), False
            self.features.add('local_ctx_param')
            self._rebind_after_with = nv
        elif rng.random() < self.p['computed_ctx_prob'] and not self.exact_only:
            # constructor arguments computed at run time (must be evaluated exactly)
            pexpr = rng.choice(['2 + 1', '1 + 1 + 1', '8 / 2', '3 * 2 - 1', '7 - 2', '9 + 2', '2.5 * 2 + 6', '26 / 2', '3 * 3'])
            text, exact = f'fp.MPFloatContext({pexpr})', False
            self.features.add('computed_ctx')
        else:
            text, exact = rng.choice(self.p['contexts'])
        alias = ''
        if rng.random() < self.p['as_alias_prob']:
            alias = f' as {self.fresh("c")}'
            self.features.add('with_as')
        self.emit(ind, f'with {text}{alias}:')
        self.exact_only = prev or exact
        if self.exact_only:
            self.features.add('with_real')
        inner = self.block(_Scope(sc), ind + 1, depth - 1, 3)
        self.exact_only = prev
        new = _Scope(sc)
        for v, t in inner.vars.items():
            new.vars[v] = t
        nv = getattr(self, '_rebind_after_with', None)
        if nv is not None and text.find(f'({nv}') >= 0:
            self._rebind_after_with = None
            if rng.random() < 0.6:
                self.emit(ind, f'{nv} = {rng.choice([2, 7, 8])}')
                self.emit(ind, f'with fp.MPFloatContext({nv}):')
                v2 = self.fresh('v')
                self.emit(ind + 1, f'{v2} = {self.real(new, 2)}')
                new.vars[v2] = 'R'
        return new

    def ret_expr(self, sc):
        t = self.ret_type
        if t == 'R':
            return self.real(sc, 2)
        if t == 'B':
            return self.boolean(sc, 2)
        if t == 'T':
            return f'({self.real(sc, 2)}, {self.real(sc, 1)})'
        if t == 'L':
            ls = sc.of('L')
            if ls and self.rng.random() < 0.6:
                return self.rng.choice(ls)
            return f'[{self.real(sc, 1)}, {self.real(sc, 1)}]'
        raise ValueError(t)

    # -- functions -------------------------------------------------------------------
    def helper(self, idx: int):
        rng = self.rng
        name = f'h{idx}'
        mutates = rng.random() < self.p['mutate_helper_prob']
        via_alias = False
        deco = '@fp.fpy'
        if rng.random() < self.p['helper_ctx_prob']:
            deco = f'@fp.fpy(ctx={rng.choice(["C3", "F8", "fp.FP32", "FX", "fp.FP64"])})'
            self.features.add('helper_ctx')
        self.in_helper = True
        self.ret_type = 'R'
        if self.p.get('reset_counter_per_function'):
            self.counter = 0
        sc = _Scope()
        if mutates:
            args = ('L', 'R')
            self.emit(0, deco)
            self.emit(0, f'def {name}(zs, z):')
            sc.vars['zs'] = 'L'
            sc.vars['z'] = 'R'
            self.list_len['zs'] = None
            if rng.random() < self.p.get('mutate_via_alias_prob', 0):
                # the only write goes through a local alias of the parameter (what a purity analysis has to follow)
                al = self.fresh('ws')
                form = rng.random()
                if form < 0.6:
                    self.emit(1, f'{al} = zs')
                elif form < 0.8:
                    self.emit(1, f'{al} = zs if z == z else zs')
                else:
                    self.emit(1, f'{al}, _ = (zs, z)')
                sc.vars[al] = 'L'
                self.list_len[al] = None
                self._alias_of = getattr(self, '_alias_of', {})
                self._alias_of[al] = 'zs'
                self.emit(1, f'{al}[0] = {self.real(sc, 2)}')
                self.features.add('helper_mutates_via_alias')
                via_alias = True
            else:
                self.emit(1, f'zs[0] = {self.real(sc, 2)}')
            self.min_len_helper = 1
        else:
            nargs = rng.choice([1, 2])
            args = tuple('R' for _ in range(nargs))
            names = ['z', 'y'][:nargs]
            self.emit(0, deco)
            self.emit(0, f'def {name}({", ".join(names)}):')
            for nm in names:
                sc.vars[nm] = 'R'
        saved = self.exact_only
        if not via_alias:
            # (a helper whose only write goes through an alias keeps it that way: no further statements)
            sc = self.block(sc, 1, 1, 2)
        self.emit(1, f'return {self.real(sc, 2)}')
        self.emit(0, '')
        self.exact_only = saved
        self.in_helper = False
        self.helpers.append((name, args, 'R', mutates))

    def program(self) -> Program:
        rng = self.rng
        self.lines = [HEADER]
        for k in range(rng.randint(0, self.p['helpers'])):
            self.helper(k)
        if rng.random() < self.p.get('closure_helpers_prob', 0):
            # two functions from one factory: same captured name, different values
            self.lines.append(CLOSURES)
            self.helpers += [('d2', ('R',), 'R', False), ('d3', ('R',), 'R', False)]
            self.features.add('closure_helpers')
        saved_min = dict(self.min_len)
        self.min_len = {}
        arg_types = self.p['args']
        if callable(arg_types):
            arg_types = arg_types(rng)
        names = []
        sc = _Scope()
        cnt = {}
        for t in arg_types:
            base = {'R': 'x', 'B': 'p', 'L': 'xs', 'LL': 'xss', 'T': 'tp', 'I': 'n'}[t]
            cnt[base] = cnt.get(base, 0) + 1
            nm = f'{base}{cnt[base]}'
            names.append(nm)
            sc.vars[nm] = t
            if t in ('L', 'LL'):
                self.list_len[nm] = None
        self.ret_type = rng.choice(self.p['ret_types'])
        if self.p.get('reset_counter_per_function'):
            self.counter = 0
        self.emit(0, '@fp.fpy')
        self.emit(0, f'def f({", ".join(names)}):')
        self._shadowing = False
        if self.helpers and rng.random() < self.p.get('shadow_freevar_prob', 0):
            # a local of the caller named like a module-level constant the helpers read (K2 / K3):
            # inlining must not let the helper's free variable be captured by it
            nm = rng.choice(['K2', 'K3'])
            self.emit(1, f'{nm} = {self.real(sc, 1)}')
            sc = _Scope(sc)
            sc.vars[nm] = 'R'
            self._shadowing = True
            self.features.add('local_shadows_free_var')
        sc = self.block(sc, 1, self.p['max_depth'], self.p['max_stmts'])
        self.emit(1, f'return {self.ret_expr(sc)}')
        src = '\n'.join(self.lines) + '\n'
        ml = {}
        for i, nm in enumerate(names):
            if arg_types[i] in ('L',):
                ml[i] = self.min_len.get(nm, 0)
        return Program(src, tuple(arg_types), ml, self.ret_type, [h[0] for h in self.helpers], set(self.features))


def _with(sc, name):
    s = _Scope(sc)
    s.vars[name] = 'R'
    return s


# ---------------------------------------------------------------------------
# arguments
# ---------------------------------------------------------------------------

REAL_POOL = [0.0, -0.0, 1.0, -1.0, 0.5, 1.5, -2.5, 3.0, 0.1, 7.0, 100.0, 1e-3, 1e10, -3.75, 0.3333333333333333,
             float('inf'), float('-inf'), float('nan'), 2, -3, 5]


def gen_args(rng: random.Random, prog: Program, specials: bool = True, list_len=None):
    out = []
    pool = REAL_POOL if specials else [v for v in REAL_POOL if isinstance(v, int) or math.isfinite(v)]
    for i, t in enumerate(prog.arg_types):
        if t == 'R':
            out.append(rng.choice(pool))
        elif t == 'I':
            out.append(rng.choice([2, 3, 4, 5, 8]))
        elif t == 'B':
            out.append(rng.random() < 0.5)
        elif t == 'L':
            lo = prog.min_len.get(i, 0)
            n = list_len if list_len is not None and list_len >= lo else rng.choice([lo, lo, lo + 1, lo + 2, 3, 5, 8, 0] if lo == 0 else [lo, lo + 1, lo + 2, max(lo, 5)])
            out.append([rng.choice(pool) for _ in range(n)])
        elif t == 'LL':
            out.append([[rng.choice(pool) for _ in range(rng.choice([1, 2, 3]))] for _ in range(rng.choice([0, 1, 2, 3]))])
        elif t == 'T':
            out.append((rng.choice(pool), rng.choice(pool)))
    return out


# ---------------------------------------------------------------------------
# loading
# ---------------------------------------------------------------------------

_loaded = 0


def load_module(source: str, workdir: str, tag: str = 'm'):
    """Writes the source into workdir, imports it (registered in sys.modules first), returns the module."""
    global _loaded
    _loaded += 1
    name = f'vfgen_{tag}_{os.getpid()}_{_loaded}'
    path = os.path.join(workdir, name + '.py')
    with open(path, 'w') as f:
        f.write(source)
    spec = importlib.util.spec_from_file_location(name, path)
    mod = importlib.util.module_from_spec(spec)
    sys.modules[name] = mod
    try:
        spec.loader.exec_module(mod)
    except BaseException:
        sys.modules.pop(name, None)
        raise
    return mod


_unloads = 0


def unload(mod, keep_caches: bool = False):
    global _unloads
    sys.modules.pop(mod.__name__, None)
    _unloads += 1
    # every 25 programs: see drop_caches (C18, which studies process-wide state, keeps them)
    if not keep_caches and _unloads % 25 == 0:
        drop_caches()


def drop_caches():
    """harness memory hygiene for long runs: the default interpreter memoizes the compiled form of every function it ever ran
    (BytecodeInterpreter.func_cache, keyed by the FuncDef, never evicted) and linecache keeps every generated file"""
    import linecache
    try:
        from fpy2.interpret import get_default_interpreter
        rt = get_default_interpreter()
        if hasattr(rt, 'func_cache'):
            rt.func_cache.clear()
    except Exception:
        pass
    linecache.clearcache()
