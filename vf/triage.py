"""Developer helper: run shards of a check module in-process and group violations."""
import sys, json, collections, importlib
def main():
    mod = importlib.import_module(sys.argv[1])
    tier = sys.argv[2]
    shards = sys.argv[3]  # e.g. 0,5,9/64
    ids, n = shards.split('/')
    groups = collections.Counter(); first = {}
    tot = 0
    for i in ids.split(','):
        res = mod.shard(int(i), int(n), tier, int(sys.argv[4]) if len(sys.argv) > 4 else 0)
        tot += res.evaluations
        for w in res.violations:
            mech = w.get('mechanism', {})
            key = (json.dumps(mech, sort_keys=True), str(w.get('problem'))[:60])
            groups[key] += 1
            first.setdefault(key, w)
        print('shard', i, 'evals', res.evaluations, 'nontrivial', res.nontrivial, 'viol', len(res.violations), {k: v for k, v in res.counters.items() if k.startswith('skipped') or k.startswith('ctor')})
    for k, c in groups.most_common():
        print(c, k)
        w = first[k]
        print('   ', {kk: (str(vv)[:300]) for kk, vv in w.items() if kk not in ('mechanism', 'property')})
main()
