#!/venv/bin/python
"""
Mutation validation of the checks: apply one small semantic change to a
scratch worktree of /repo (outside /repo and /verif), run the named checks with
VERIF_REPO pointing at it, record whether they fire.  The worktree is removed
afterwards.  Usage:  tools/mutants.py [name ...]   (default: all)
Table: tools/mutants.json  {name: {file, old, new, checks:[ids], note}}
"""
import json, os, subprocess, sys, tempfile, time, shutil
from pathlib import Path
HERE = Path(__file__).resolve().parent
ROOT = HERE.parent
table = json.loads((HERE / 'mutants.json').read_text())
names = sys.argv[1:] or list(table)
results_path = HERE / 'mutants_results.json'
results = json.loads(results_path.read_text()) if results_path.exists() else {}
for name in names:
    m = table[name]
    wt = tempfile.mkdtemp(prefix='fpy-mut-')
    os.rmdir(wt)
    subprocess.run(['git', '-C', '/repo', 'worktree', 'add', '--detach', '-q', wt, 'HEAD'], check=True)
    try:
        edits = m['edits'] if 'edits' in m else [m]
        ok = True
        for e in edits:
            p = Path(wt) / e['file']
            s = p.read_text()
            if s.count(e['old']) < 1:
                print(f'{name}: pattern not found in {e["file"]}')
                ok = False
                break
            s = s.replace(e['old'], e['new'], 1 if not e.get('all') else -1)
            p.write_text(s)
        if not ok:
            continue
        for chk in m['checks']:
            env = dict(os.environ, VERIF_REPO=wt)
            t0 = time.time()
            # the run against the mutated tree must not replace the evidence / replays of the real tree
            ev = ROOT / 'evidence' / f'{chk}.json'
            saved_ev = ev.read_bytes() if ev.exists() else None
            rp = ROOT / 'replays' / chk
            saved_rp = Path(tempfile.mkdtemp(prefix='vf-replays-'))
            if rp.exists():
                shutil.copytree(rp, saved_rp / chk)
            try:
                r = subprocess.run([str(ROOT / 'check'), chk, m.get('tier', 'quick')], env=env, capture_output=True, text=True, cwd=str(ROOT))
            finally:
                if saved_ev is not None:
                    ev.write_bytes(saved_ev)
                shutil.rmtree(rp, ignore_errors=True)
                if (saved_rp / chk).exists():
                    shutil.copytree(saved_rp / chk, rp)
                shutil.rmtree(saved_rp, ignore_errors=True)
            dt = time.time() - t0
            fired = r.returncode == 1 and 'VIOLATION' in r.stdout
            print(f'{name} [{chk}]: rc={r.returncode} fired={fired} {dt:.0f}s :: ' + (r.stdout.strip().splitlines()[-1][:200] if r.stdout.strip() else r.stderr[-300:]))
            results.setdefault(name, {})[chk] = {'fired': fired, 'rc': r.returncode, 'seconds': round(dt), 'note': m.get('note', '')}
    finally:
        subprocess.run(['git', '-C', '/repo', 'worktree', 'remove', '--force', wt])
        shutil.rmtree(wt, ignore_errors=True)
results_path.write_text(json.dumps(results, indent=1, sort_keys=True))
# restore evidence of the unchanged tree is the caller's job (re-run the check)
