#!/bin/bash
# tools/after.sh <file> <pattern> <command...>: waits until <file> contains <pattern>, then runs the command
f="$1"; pat="$2"; shift 2
while ! grep -q "$pat" "$f" 2>/dev/null; do sleep 30; done
exec "$@"
