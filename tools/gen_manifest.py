#!/usr/bin/env python3
"""Regenerates MANIFEST.json from the table below (single source of truth)."""
import json
from pathlib import Path

ROOT = Path(__file__).resolve().parent.parent

CHECKS = {
 'C01': dict(
  technique='runtime post-condition monitor on Context.round/round_at vs independent Fraction oracle; breakpoint-exhaustive workload over small formats',
  category='exploration',
  text='Every call of ctx.round / round_at / round_integer made by the workload is checked by a post-condition monitor patched onto the real context classes, against an independent rounding oracle (value, sign of zero, inexact/overflow flags, membership, representable_under). The workload enumerates every breakpoint (each representable value, midpoint and near neighbours, overflow threshold, tiny and huge values, specials) of every small format of every family x 8 modes x every overflow mode, in five operand presentations; thorough adds wider formats and the named aliases on boundary-focused operands. Held on what was observed.',
  ref='DESIGN.md 1.1, 1.2, 2/C01',
  note='Trusted: vf/oracle/rnd.py + layout.py (from IEEE 754 4.3/7.4 and the documented layouts), Python Fraction arithmetic. Spec-silent cases (RTO/RTE overflow direction, sign of fixed-point inf substitutes, ExpContext underflow) accept a set.'),
 'C16': dict(
  technique='exhaustive bit-pattern sweep of the real encode/decode/ordinal functions against an independent layout decoder',
  category='exploration',
  text='For every bit pattern of every small encodable format (extended float: every es/nbits/NaN kind/infinity flag/eoffset; IEEE; two\'s-complement; sign-magnitude; exponential) the real decode is compared with an independent decoder, encode(decode(b)) with b, decode(encode(v)) with v, and to_ordinal/from_ordinal/next_up/next_down/normalize/representable_under/minval/maxval/largest/smallest/infval with the sorted decoded value set. Exhaustive below the stated widths; binary16 vs numpy, binary32/64 sampled vs struct.',
  ref='DESIGN.md 1.2, 2/C16',
  note='Trusted: vf/oracle/layout.py, numpy.float16 and struct for the IEEE interchange formats.'),
 'C04': dict(
  technique='differential runtime monitor at Function.__call__ against an independent reference evaluator (vf/oracle/refsem.py, written from the language reference over the Python ast of the same source text; exact-rational arithmetic + independent rounding oracle)',
  category='exploration',
  text='8000 (60000) generated source programs from five grammar profiles (nested / sequential with-blocks incl. contexts computed at run time and from run-time integer arguments, with ... as c, loops over lists / ranges / zip / enumerate, while loops, branches, early returns inside with inside loops, up to three helper functions with and without their own context called under different active contexts, list mutation through aliases and through callees, comprehensions, strict slices and indices, tuples, min / max / sum / any / all, comparison chains, short-circuit operators, asserts) plus 17 directed corner programs (signed-zero literals and chains of negations, negated literals under narrow contexts, context constructor arguments that only the exact evaluation gets right, early return inside with / loops, aliasing vs slices, loop over a list mutated in the body, min / max ties and NaN, helper context selection) are decorated by the real @fp.fpy and called on 6 (10) argument tuples incl. +-0, +-inf, NaN, non-representable values, ints, under callers {none, FP32, 5-bit float, REAL, saturating fixed point, 8-bit IEEE RTN, 3-bit float with subnormals RAZ}; the directed ones on all pairs of a 14-value pool x 7 callers. The reference evaluator interprets the same text; results are compared structurally (sign of zero, NaN, infinities, bool vs number, list vs tuple, lengths); where the reference is stuck (failed assert, index / slice / zip strictness, cast, rounding that must raise) the implementation has to raise. Per-operator observation counts are recorded; the run is inconclusive if any arithmetic or comparison operator was evaluated fewer than 20 times.',
  ref='DESIGN.md 1.6, 2/C04',
  note='Trusted: vf/oracle/refsem.py + vf/oracle/{arith,rnd,describe}.py (the rounding oracle is the one C01 validates the contexts against). Runs on which the reference leaves the result open (sign of an exact zero sum under round-toward-negative, several admissible overflow results, an irrational result under REAL) and NotImplementedError of the implementation are counted, not compared. Not generated: foreign values beyond context constructors, print, primitives, transcendental functions (C03), round_at, fst/snd, dim/size.'),
 'C05': dict(
  technique='exhaustive small-encoding sweep of the real RealFloat/Float operators against a denotational (Fraction + IEEE special rules) oracle',
  category='exploration',
  text='Every ordered pair of small encodings (sign x significand x exponent, so each value occurs in many redundant encodings, zeros with every exponent, -0, infinities, NaN) of RealFloat and Float, crossed with ints, floats (incl. +-0.0, inf, nan, subnormals, 2^+-1000) and Fractions (dyadic and not), is pushed through +, -, *, **, neg, pos, abs, the six comparisons (both operand orders, native on the left too), compare(), hash, int(), float(), as_rational, split, normalize, is_more_significant, bit and the from_* constructors; each result is compared with the same operation on the denotations. Exhaustive on the stated window, wide values sampled.',
  ref='DESIGN.md 2/C05',
  note='Trusted: Fraction arithmetic and the IEEE 754 tables written in vf/checks/c05.py. The sign of a zero result that depends on the sign of an int/Fraction zero operand is left open (such operands carry no sign). RealFloat.compare(Float) is outside its declared domain and not called.'),
 'C17': dict(
  technique='scripted random source: full enumeration of all 2^k draws per operand, counted against the oracle offset; call-count/width monitor on the generator object',
  category='exploration',
  text='The context\'s rng is a scripted generator object (a random.Random subclass and a numpy-Generator-like stub, alternating) that returns each k-bit value in turn and records every request. For each operand at every multiple of 2^-(k+2) of several gaps (gap above zero / subnormal, a middle gap, the last gap below the largest value, the overflow gap) in both signs, all 2^k draws are executed: each result must be one of the two neighbours given by the independent oracle, a representable operand must come back unchanged, the same bits must give the same result, the number of draws leaving the lower neighbour must equal the offset in units of 2^-k rounded by the context\'s mode, and exactly one request of width k must reach the generator. k in 1..3 (quick) / 1..5 (thorough) and None, 8 base modes, families MPFloat, MPSFloat, MPBFloat, IEEE, EFloat, MPFixed, MPBFixed, Fixed, SMFixed.',
  ref='DESIGN.md 2/C17',
  note='Trusted: neighbours from vf/oracle/rnd.py on the deterministic twin context. In the gap above the largest value only membership and determinism are judged (where "up" goes is the overflow policy). With num_randbits=None the width is learnt from the request itself and must cover all operand bits.'),
 'C02': dict(
  technique='runtime post-condition monitor on fpy2.ops.* (and the interpreter operator tables) vs exact Fraction results rounded once by the independent oracle; wide-source / narrow-target operand sweep',
  category='exploration',
  text='Every call of fpy2.ops add, sub, mul, div, fma, sqrt, cbrt, hypot, fmod, remainder, mod, pow (integer exponent), ceil, floor, trunc, roundint, nearbyint, neg, fabs, copysign, fdim is observed by a post-condition: the exact result is computed on the operands\' denotations with Fractions (roots by integer power comparison, special cases from the IEEE 754 tables), rounded once by the independent rounding oracle, and compared with the returned value, sign of zero and inexact/overflow/invalid/divzero flags; under REAL the exact value itself is required. Operands come from a source format wider than the narrow target contexts (all pairs in thorough, sampled pairs in quick; fma triples sampled plus cancellation-heavy triples), so exact results sit within one sticky bit of target breakpoints. Thorough also runs the C01 round monitor on every intermediate rounding.',
  ref='DESIGN.md 1.1, 1.4, 2/C02',
  note='Trusted: Fraction arithmetic, vf/oracle/arith.py tables, vf/oracle/rnd.py. Open by the property or by lack of a specification: sign of an exact-cancellation zero under RTN, sign of a zero result of Python-style mod, sign of NaN. NotImplementedError accepted for non-dyadic operands and under REAL.'),
 'C03': dict(
  technique='runtime post-condition monitor on the transcendental functions/constants of fpy2.ops vs an MPFR enclosure oracle at growing precision (Ziv) + independent rounding oracle',
  category='exploration',
  text='Every call of exp, exp2, exp10, expm1, log, log2, log10, log1p, sin, cos, tan, asin, acos, atan, atan2, sinh, cosh, tanh, asinh, acosh, atanh, erf, erfc, tgamma, lgamma, pow (non-integer exponents) and of the 12 named constants is observed: the true value is enclosed by MPFR at working precision 96, 192, ... <= 16384 bits until it is separated from the format\'s breakpoints, then rounded once by the independent oracle; exactly rational results (exp 0, log 1, log2 of powers of two, pow with rational result, gamma of integers, ...) are recognised by exact tests and must come back unflagged. Workload: constants x every precision 1..130 (quick) / 1..400 (thorough) x 8 modes x float, subnormal and fixed-point targets; functions x all operands of small source formats (plus large-argument cases for bounded functions) x target precisions 1..6 / 1..12 and 24, 53, (64, 113, 200, 300) x modes x subnormal / fixed-point targets; the cases that needed the most enclosure bits are re-run under all 8 modes.',
  ref='DESIGN.md 1.3, 2/C03',
  note='Trusted: MPFR correct rounding of a single call and its IEEE special-case tables; vf/oracle/rnd.py. Cases whose separation needs more than 16384 bits or whose value leaves the MPFR exponent range are counted inconclusive (run is inconclusive above 5%).'),
 'C06': dict(
  technique='generated source modules decorated by the real @fp.fpy, evaluated and compared with an independent spelling->Fraction parser and the rounding oracle',
  category='exploration',
  text='Thousands of literal spellings (integers up to 40 digits, decimals with up to 40 fraction digits, exponents -400..400 in e/E forms, underscores, leading/trailing zeros, integers above 2^53 written with an exponent, spellings halfway between two doubles, hex-float strings with 1..46 hex digits and exponents -1100..1100, rational(p, q), digits(m, e, b) with b in {2,3,7,10,16}, negated zeros) are written into real source files as one-line functions, compiled by the real front end and called: under REAL the value must be exactly the number spelled (sign of zero included); through round(<literal>) under narrow contexts it must be that number rounded once (no second rounding through Python\'s float); the bare literal under a narrow context must be the exact value or it rounded once.',
  ref='DESIGN.md 2/C06',
  note='Trusted: the 30-line spelling parser in vf/checks/c06.py and vf/oracle/rnd.py. Documented language semantics (E-Val): a bare literal is not rounded by the active context, so "rounded once" is observed through round(). Known finding F4 (float literals pre-rounded by Python) is reported as KNOWN-FINDING; every other mechanism still fails the check.'),
 'C19': dict(
  technique='runtime monitors on strategies.sites / refusals, strategy(f, where=...), the reported EditLog and Function.forward(cursor).resolve() over generated programs whose statements carry unique provenance markers, plus random strategy histories',
  category='exploration',
  text='Generated programs (2-6 top-level statements, nesting up to 3; rounding blocks over 12 contexts incl. refused, bound and cast blocks, for loops over ranges / lists / a run-time bound, while loops incl. a call in the condition, if / if-else, context containers, calls in plain, nested and lazy positions, statements matching two user Rewrite patterns) in which every statement introduces a unique identifier or literal are decorated by the real @fp.fpy. For each of 18 aimable strategy configurations (unfold_special, unfold_neg_zero, unfold_overflow +early, float_to_fixed, rescale_fixed, insert_round x2, split PEEL/STRICT, unroll_for PEEL/STRICT, unroll_while x2, inline x2, Rewrite stmt / expr pattern): (A) every syntactic candidate (my definition: every for, every while, every pure rounding block, every call of an FPy function) must be a listed site or an explained refusal, never both, no duplicates; (B) where=j must succeed for every listed j, report edits that touch exactly the statement of sites[j], change the program, agree with where=sites[j] when no other site lies beneath it, leave every statement outside the edit textually unchanged exactly once in the result and forward it to itself, and forward the site to statements carrying its own marker; (C) where=-1, k, k+3 must be rejected; (D) where=None must report exactly the outermost listed sites and leave the rest unchanged; (E) statement, region and expression cursors of the first program are forwarded across 3 (8) random histories of 1-4 strategy applications (where = None / index / listed cursor / a cursor of the FIRST program rebased by the strategy): forwarding must raise TransformReferenceError or resolve to statements that contain the original statement\'s own marker and no marker foreign to it (expressions: the identical expression text); any other exception of a listing, a rewrite or a forward is a violation.',
  ref='DESIGN.md 2/C19',
  note='Trusted: the marker discipline (no strategy invents identifiers of the form mk_K_/lp_K_/wh_K_ or literals 1000..1999). A refused forward is always acceptable and counted. insert_round has few sites in these programs (no pinned argument formats); its listing / refusal accounting and crash freedom are what is observed there.'),
 'C20': dict(
  technique='exhaustive operand-pair sweep of the real library functions under small float contexts, recombined with Fraction arithmetic; preconditions evaluated by the oracle',
  category='exploration',
  text='ideal_2sum, fast_2sum, classic_2sum, priest_2sum, ideal_2mul, fast_2mul, classic_2mul, ideal_fma, classic_2fma are called on every operand pair (sampled pairs in quick, sampled triples for fma) of float contexts with subnormals (p = 2..4 quick / 2..7 thorough, all 8 modes where the algorithm allows): the exact sum of the returned terms must equal the exact a+b / a*b / a*b+c and the leading term must be the context\'s rounding of it. ldexp is compared with the exact product rounded once (operands wider than the context included); split / modf / frexp are recombined exactly for every finite, zero, infinite and NaN operand of a window of encodings and every digit position.',
  ref='DESIGN.md 2/C20',
  note='Trusted: Fraction arithmetic; vf/oracle/rnd.py. Preconditions (counted as "pre_false" when they fail): RN mode for fast_2sum/classic_2sum/classic_2mul/classic_2fma; |a|>=|b| for fast_2sum; rounded result finite; exact error term representable; Veltkamp/Dekker need 2 <= s <= p-2 i.e. p >= 4 and no overflow of (2^s+1)*x; Boldo-Muller needs p >= 5; partial products not below the subnormal quantum.'),
 'C07': dict(
  technique='differential runtime monitor at Function.__call__: generated source programs run before and after simplify / ConstFold / CopyPropagate / DeadCodeEliminate on the same inputs',
  category='exploration',
  text='Thousands of generated programs (copies whose source is redefined afterwards, loop targets shadowing outer variables, constants folded under nested/sequential/run-time-only contexts and rounding modes, dead stores with impure right-hand sides, list mutation through aliases and through callees, helper calls with and without their own context, early returns, statically-true branches) are decorated by the real @fp.fpy and run on 6 inputs each under several caller contexts; then simplify (all switches on plus 4 sampled switch combinations), each pass alone, and a random order of the three passes are applied and the transformed program is run on the same deep-copied inputs. Any difference in the structural result (sign of zero, NaN, infinities, bools, lists, tuples) or an exception of the transformed program or of the transformation itself is a violation; a hanging transformation is counted (watchdog) and makes the run inconclusive only through the early-stop counters.',
  ref='DESIGN.md 1.5, 2/C07',
  note='Trusted: the original program\'s own result (the interpreter is checked separately by C04/C01/C02). Inputs on which the original raises are skipped and counted. The run is inconclusive if fewer than 30% of the transformed variants differ textually from the original.'),
 'C08': dict(
  technique='differential runtime monitor at Function.__call__: generated loop-heavy source programs run before and after unroll_for / unroll_while / split / elim_iter / fuse on inputs of every list length',
  category='exploration',
  text='Generated programs whose loop bodies reassign outer variables, mutate the list they iterate, return early, nest loops, iterate over slices / comprehensions / range with step / zip / enumerate, run under narrow active contexts (3-bit float, fixed point with quantum 4) and use variable names equal to the temporaries the strategies generate (t, n, i, j, m, _src, _i, t2..t12, i3.., ...) are transformed by unroll_for (every loop index and None, times 1..4, PEEL and STRICT), split (factor 1..5 and a variable factor, PEEL and STRICT), unroll_while (times 1..3), elim_iter (both switches), fuse, and the documented compositions (elim_iter then unroll_for, fuse then split); original and transformed programs are run on 10 inputs each with list lengths 0..10, 12, 13, 17 and compared structurally. For STRICT an AssertionError / ValueError on a non-divisible length is the documented outcome.',
  ref='DESIGN.md 1.5, 2/C08',
  note='Trusted: the original program\'s own result. Known finding F27 (elim_iter when the loop body writes the iterated list) is reported as KNOWN-FINDING; every other mechanism fails the check.'),
 'C09': dict(
  technique='differential runtime monitor at Function.__call__: generated caller/callee source modules run before and after inline / monomorphize / close / lift_context',
  category='exploration',
  text='Generated modules of up to three helper functions and a caller (callees with and without their own context, called inside nested with-blocks, loops, comprehensions, if-expressions and short-circuit operands, as arguments of other calls, with list arguments they mutate, with local names clashing with the caller\'s, chains of depth 3, multi-return callees and calls in while conditions that must be refused) are transformed by inline (all sites recursive / one level / one level twice, random single sites, restricted to one callee), monomorphize (two pinned caller contexts, pinned argument types), close, lift_context and their compositions; the original is evaluated "in the corresponding way" (for monomorphize: called with ctx=<pinned context>, the result called without) on 8 inputs under several caller contexts including REAL and compared structurally.',
  ref='DESIGN.md 1.5, 2/C09',
  note='Trusted: the original program\'s own result. Documented refusals (RuntimeError, ValueError, CallGraphError, TransformDeclined, TransformReferenceError) are counted, not judged.'),
 'C10': dict(
  technique='differential runtime monitor at Function.__call__: the quantizer `with C: y = round(x)` for every enumerated context C versus each lowering rewrite and every prefix of the documented chain, on the breakpoint operands of C\'s format',
  category='exploration',
  text='For every statically constructible context of the enumeration used by C01 (all float and fixed families, every rounding mode, overflow mode, NaN/infinity option and substitute value; 640 sampled per seed in quick, all in thorough) a module with the quantizers `with C: y = round(x)`, `with C: return round(x)` and `with C: y = cast(x)` is decorated by the real @fp.fpy. Each rewrite alone (unfold_special, unfold_neg_zero, unfold_overflow with and without early_check, float_to_fixed, rescale_fixed, simplify), every prefix of length >= 2 of the documented chain (both overflow variants) and two random orders of three rewrites are applied; original and lowered programs are run on the breakpoint operands of the format (every representable neighbourhood boundary: midpoints, one-ulp-off midpoints, subnormal range, emin, the overflow threshold and the first value rounding past it, the clamp bounds, huge and tiny magnitudes, +-0, +-inf, NaN) and compared structurally including the sign of zero. A refusal (TransformDeclined) is acceptable, any other exception of a rewrite is a violation. elim_round / insert_round (+ simplify, + each other) are applied to four exact-arithmetic programs monomorphized at 63 (argument format, caller context) pairs and compared on 40 (300) operand triples drawn from every member of the argument format.',
  ref='DESIGN.md 2/C10',
  note='Trusted: the original quantizer (itself under the independent rounding oracle of C01). Operands on which the original raises are counted, not compared. Inconclusive when fewer than 25% of the lowered variants differ textually from the original. Known findings F32 (elim_round hoisting under a context without -0) and F33 (ValueError from format inference) are reported as KNOWN-FINDING.'),
 'C13': dict(
  technique='online trace checker: a tracing subclass of the real bytecode compiler (vf/monitors/trace.py, nothing edited in the repository) reports every evaluated expression and every binding of generated programs; each event is checked against the facts of the real TypeInfer, ArraySizeInfer, ValueClassInfer, PartialEval, DefineUse and Alias analyses of the same FuncDef',
  category='exploration',
  text='1600 (30000) generated programs from five grammar profiles (branches and one-armed ifs, for / while loops, nested with-blocks incl. computed contexts, constant expressions, copies and redefinitions, list construction / aliasing / slicing / indexed assignment / rebinding of local lists in branches and loops, nested lists, tuples and destructuring, comprehensions, zip / enumerate, helper calls that mutate list arguments) are run on 8 (12) argument tuples incl. specials, lists of every length and nested lists, under 3 caller contexts. For every evaluated expression: its value has the shape of TypeInfer.by_expr (bool / number / list / tuple / context, static list length); a list has the concrete ArraySizeInfer size and all lists sharing a size variable have one length within a run; the class of a number (NaN / Inf / zero / finite) is among ValueClassInfer.by_expr; the value equals the constant PartialEval.by_expr reports. For every variable read: the assignment / indexed assignment / loop header / with / argument that last bound the name is among the assignments its DefineUse definition stands for (phi operands expanded). At every binding of a list: any other name bound to the identical list object must be may_alias with it; a name bound to an element list of another must share that one\'s depth-1 region. Facts are checked up to a raise as well.',
  ref='DESIGN.md 0.3, 2/C13',
  note='Trusted: the tracing hooks return their argument unchanged (C04 checks the untraced interpreter separately). Per-analysis counters of checked and of distinct constraining facts are in the evidence; the run is inconclusive if any analysis contributed fewer than 50 constraining facts. Escape / purity / liveness are exercised only through their consumers (C07, C11).'),
 'C14': dict(
  technique='(a) online trace checker (tracing subclass of the real bytecode compiler) judging every evaluated expression value against FormatInfer.by_expr / ret_fmt under pinned signatures; (b) algebraic monitor over AbstractFormat operators on all members of small formats; (c) monitor of round_is_identity against the independent rounding oracle',
  category='exploration',
  text='(a) 480 (9000) generated numeric programs (exact arithmetic under REAL, rounding blocks over int8 / uint4 / fixed / 8-bit float / 3-bit float contexts, accumulating for / while loops, branches refined by comparisons, isnan / isinf / logb ladders, -0 / inf / NaN producers, min / max / fma / floor / division) are analysed by the real FormatInfer under 3 of 10 pinned (caller context, argument format) signatures each and run through the tracing compiler on 10 (16) argument tuples drawn from ALL members of the pinned argument format (finite values, both zeros, infinities, NaN where the format has them, lists of length 0-3): every evaluated expression value must be a member of by_expr[e] and the result a member of fn_fmt.ret_fmt (SetFormat / AbstractFormat membership by predicates written here: quantum, significant bits, bounds, four special flags; concrete Format membership by the number library). Only the first value outside its format is reported per run (later ones are consequences). (b) 110 base abstract formats (those of 26 small contexts of every family plus a hand-made grid prec x exp x symmetric / asymmetric / zero / unbounded bounds x special flags) and ~360 formats the operators produce from them; for 3450 (96000) ordered pairs and all members in a window (<= 33 each): a+b in A+B, a-b in A-B, a*b in A*B, members of A and B in A|B, A<=B only if no member of A lies outside B; for every format -a in -A, |a| in |A|. Exact results by the Fraction oracle with IEEE 754 zero-sign rules. (c) round_is_identity(A, ctx) for every format x 26 contexts: a claimed identity must leave every member unchanged under the rounding oracle of C01.',
  ref='DESIGN.md 2/C14',
  note='Trusted: membership predicates in vf/checks/c14.py; vf/oracle/{arith,rnd,describe}.py. Operators that raise (AssertionError in effective_prec for bounded formats with unbounded exponent range) and analyses that raise (ValueError from _materialize_in_scope, the F33 mechanism) compute no format and are counted (operator_raised, analysis_errors), not judged. Known finding F46 (exact -(+0) and negative * (+0) are -0 although no operand format has a -0; same root cause as F32) is reported as KNOWN-FINDING.'),
 'C15': dict(
  technique='bounded enumeration of program skeletons compiled by the real front end; accepted ones executed on every combination of branch outcomes and trip counts; the Python runtime\'s unbound-variable detection and a definite-assignment judgement as oracles',
  category='exploration',
  text='Program skeletons over assignments, tuple assignments, uses, if/else, one-armed if, for over a list or a range, while with a flag, with / with-as, comprehensions and returns (names a, b, t; up to 3 top-level statements and nesting 2 in quick, 4 and 3 in thorough; uses biased towards names assigned anywhere earlier, loop targets and with-aliases included) are written to source files and decorated by the real @fp.fpy. Each construct\'s condition is a distinct boolean argument and each loop iterable a distinct list argument, so every accepted skeleton is run on all combinations of branch outcomes and trip counts 0/1/2 (capped at 64): UnboundLocalError, NameError, a KeyError on an identifier from the def-use machinery, or a None result is a violation. Independently a 40-line definite-assignment judgement written from the language guide flags accepted programs that read a loop-/branch-introduced name or a loop target afterwards, or fall off the end.',
  ref='DESIGN.md 2/C15',
  note='Trusted: CPython\'s unbound-local detection; the judgement in vf/checks/c15.py (a path that has returned constrains nothing, as the checker documents). Over-rejection is not judged. Other exceptions (TypeError from adding a context alias) are irrelevant and ignored.'),
}

NOT_YET = {}

def main():
    props = [json.loads(l)['id'] for l in (ROOT / 'properties.jsonl').read_text().splitlines() if l.strip()]
    checks = []
    for pid in props:
        if pid not in CHECKS:
            continue
        c = CHECKS[pid]
        checks.append({
            'property_id': pid,
            'quick_cmd': f'./check {pid} quick',
            'thorough_cmd': f'./check {pid} thorough',
            'evidence_file': f'evidence/{pid}.json',
            'replay_cmd_template': './check --replay {path}',
            'engine': 'vf',
            'technique': c['technique'],
            'level_claimed': {'category': c['category'], 'text': c['text'], 'design_ref': c['ref']},
            'level_note': c['note'],
        })
    na = []
    for pid in props:
        if pid not in CHECKS:
            na.append({'property_id': pid, 'reason': NOT_YET.get(pid, 'check not built yet in this session (build order in DESIGN.md 4b); the technique does apply')})
    man = {
        'version': 1,
        'setup_cmd': 'true',
        'hooks': {
            'guard': 'FPY2_VERIF',
            'enable': 'no source hooks: monitors are installed from the harness by patching classes/functions of the imported fpy2 (vf/monitors/*); checks import fpy2 from /repo\'s working tree via PYTHONPATH',
            'baseline_off_cmd': 'cd /repo && /venv/bin/python -m pytest -ra -q -p no:cacheprovider --timeout=900 --continue-on-collection-errors',
            'source_commits': [],
            'add_only': True,
        },
        'engines': [{
            'name': 'vf', 'path': 'vf/', 'serves_properties': sorted(CHECKS),
            'kind_free_text': 'Python harness run with /venv/bin/python: independent oracles (vf/oracle), post-condition / trace monitors patched onto the real fpy2 classes (vf/monitors), enumerating and generating workloads (vf/gen), sharded over 16 processes with per-shard timeouts; three-valued verdicts (0 held / 1 violated / 2 inconclusive)',
        }],
        'checks': checks,
        'not_applicable': na,
        'notes': 'Known findings and fixed defects: known_findings.json. Mutation validation table: tools/mutants.json, results tools/mutants_results.json. Seeded independent changes: seeded/.',
    }
    (ROOT / 'MANIFEST.json').write_text(json.dumps(man, indent=1) + '\n')

if __name__ == '__main__':
    main()
