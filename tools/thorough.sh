#!/bin/sh
# tools/thorough.sh <id>...   run the thorough tier of the given checks one after the other; one summary line each
cd "$(dirname "$0")/.."
for id in "$@"; do
  tmp=$(mktemp)
  ./check $id thorough >"$tmp" 2>&1; rc=$?
  echo "$id rc=$rc :: $(grep -v '^KNOWN-FINDING' "$tmp" | tail -1 | cut -c1-200)"
  grep -c '^VIOLATION' "$tmp" | sed "s/^/$id violations: /"
  rm -f "$tmp"
done
