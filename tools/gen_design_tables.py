#!/usr/bin/env python3
"""Regenerates the machine-written tables of DESIGN.md (between the GENERATED markers) from
known_findings.json, tools/mutants.json + mutants_results.json and seeded/*/meta.json."""
import json
import re
from pathlib import Path

ROOT = Path(__file__).resolve().parent.parent


def findings_table():
    d = json.loads((ROOT / 'known_findings.json').read_text())
    rows = ['| id | property | status | commit | what |', '|----|----------|--------|--------|------|']

    def key(f):
        return int(re.sub(r'\D', '', f.get('id', 'F0')) or 0)
    for f in sorted(d['findings'], key=key):
        if f.get('status') == 'fixed':
            what = f['line'].split(' ', 3)[3] if f.get('line') else ''
            rows.append(f"| {f['id']} | {f['property']} | fixed | `{f.get('commit', '')}` | {what.replace('|', '/')[:420]} |")
        else:
            rows.append(f"| {f['id']} | {f['property']} | **known** | - | {f.get('what', '').replace('|', '/')[:520]} Not repaired because: {f.get('why_not_fixed', '').replace('|', '/')[:400]} |")
    return '\n'.join(rows)


def mutants_table():
    t = json.loads((ROOT / 'tools' / 'mutants.json').read_text())
    r = json.loads((ROOT / 'tools' / 'mutants_results.json').read_text())
    rows = ['| mutant | file | what | check | fired | seconds |', '|--------|------|------|-------|-------|---------|']
    for name in sorted(t, key=lambda n: (t[n]['checks'][0], n)):
        m = t[name]
        files = m['file'] if 'file' in m else ', '.join(sorted({e['file'] for e in m['edits']}))
        for chk in m['checks']:
            res = r.get(name, {}).get(chk)
            fired = '-' if res is None else ('yes' if res['fired'] else f"NO (rc={res['rc']})")
            secs = '-' if res is None else res['seconds']
            rows.append(f"| {name} | {files.replace('fpy2/', '')} | {m.get('note', '')[:110]} | {chk} | {fired} | {secs} |")
    return '\n'.join(rows)


def seeded_table():
    rows = ['| property | change (file) | trigger | caught by | notes |', '|----------|---------------|---------|-----------|-------|']
    for d in sorted((ROOT / 'seeded').glob('C*')):
        m = {'property': d.name}
        for name in ('desc.json', 'meta.json'):
            if (d / name).exists():
                m.update(json.loads((d / name).read_text()))
        demo = f"demo rc {m.get('demo_on_original', '?')} / {m.get('demo_on_patched', '?')} (original / patched)"
        m['notes'] = (m.get('notes', '') + ' ' + demo).strip()
        rows.append(f"| {m['property']} | {m.get('file', '')} | {m.get('trigger', '')[:300]} | {m.get('caught_by', '')} | {m.get('notes', '')[:420]} |")
    return '\n'.join(rows)


def main():
    p = ROOT / 'DESIGN.md'
    s = p.read_text()
    for tag, fn in (('FINDINGS', findings_table), ('MUTANTS', mutants_table), ('SEEDED', seeded_table)):
        a, b = f'<!-- BEGIN GENERATED {tag} -->', f'<!-- END GENERATED {tag} -->'
        if a in s and b in s:
            s = s[:s.index(a) + len(a)] + '\n' + fn() + '\n' + s[s.index(b):]
    p.write_text(s)


if __name__ == '__main__':
    main()
