#!/bin/sh
# tools/sweep.sh <tier> <seed>...   runs every registered check for each seed; prints one line per run
tier=$1; shift
cd "$(dirname "$0")/.."
for seed in "$@"; do
  for id in $(python3 -c "import json;print(' '.join(c['property_id'] for c in json.load(open('MANIFEST.json'))['checks']))"); do
    out=$(VERIF_SEED=$seed ./check $id $tier 2>&1 | grep -v '^KNOWN-FINDING' | tail -1 | cut -c1-160)
    echo "seed=$seed $id rc=$? :: $out"
  done
done
