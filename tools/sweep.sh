#!/bin/sh
# tools/sweep.sh <tier> <seed>...   runs every registered check (or $CHECKS) for each seed; prints one line per run
tier=$1; shift
cd "$(dirname "$0")/.."
ids=${CHECKS:-$(python3 -c "import json;print(' '.join(c['property_id'] for c in json.load(open('MANIFEST.json'))['checks']))")}
for seed in "$@"; do
  for id in $ids; do
    tmp=$(mktemp)
    VERIF_SEED=$seed ./check $id $tier >"$tmp" 2>&1; rc=$?
    out=$(grep -v '^KNOWN-FINDING' "$tmp" | tail -1 | cut -c1-160)
    echo "seed=$seed $id rc=$rc :: $out"
    rm -f "$tmp"
  done
done
