#!/usr/bin/env python3
"""
Seeded changes (produced by sub-agents that saw only a property's text and their own worktree).

  tools/seeded.py import <ID> [<src dir>]     copy patch.diff / demo.py / NOTES.md into seeded/<ID>/
  tools/seeded.py runtree <ID> <tree> <CHECK>...   same as run, but against an already patched scratch tree (VERIF_REPO=<tree>)
                                              instead of patching /repo (for use while something else reads /repo)
  tools/seeded.py run <ID> <CHECK>...         confirm the demonstration on both trees, apply the patch to /repo,
                                              run the named checks (quick tier), revert, update seeded/<ID>/meta.json

/repo must be clean before `run`; it is restored with `git checkout -- .` afterwards whatever happens.
Evidence and replay files of the real tree are preserved (the runs against the patched tree are not evidence).
"""
import json
import os
import shutil
import subprocess
import sys
import tempfile
import time
from pathlib import Path

ROOT = Path(__file__).resolve().parent.parent
REPO = '/repo'
PY = '/venv/bin/python'


def sh(cmd, **kw):
    return subprocess.run(cmd, capture_output=True, text=True, **kw)


def demo_rc(dirpath: Path, tree: str) -> int:
    env = dict(os.environ, PYTHONPATH=tree, PYTHONHASHSEED='0')
    try:
        r = subprocess.run([PY, 'demo.py'], cwd=str(dirpath), env=env, capture_output=True, text=True, timeout=900)
    except subprocess.TimeoutExpired:
        return -9
    return r.returncode


def main(argv):
    cmd, pid = argv[0], argv[1]
    d = ROOT / 'seeded' / pid
    if cmd == 'import':
        src = Path(argv[2]) if len(argv) > 2 else Path(f'/tmp/seed/{pid}/out')
        d.mkdir(parents=True, exist_ok=True)
        for name in ('patch.diff', 'demo.py', 'NOTES.md'):
            if (src / name).exists():
                shutil.copy(src / name, d / name)
        print('imported', sorted(p.name for p in d.iterdir()))
        return 0
    if cmd not in ('run', 'runtree'):
        print(__doc__)
        return 2
    tree = None
    if cmd == 'runtree':
        tree = argv[2]
        argv = argv[:2] + argv[3:]
    checks = argv[2:]
    meta_path = d / 'meta.json'
    meta = json.loads(meta_path.read_text()) if meta_path.exists() else {'property': pid}
    if tree is None and sh(['git', '-C', REPO, 'status', '--porcelain']).stdout.strip():
        print('/repo is not clean; refusing')
        return 2
    meta['demo_on_original'] = demo_rc(d, REPO)
    results = {}
    if tree is not None:
        applied = sh(['true'])
    else:
        applied = sh(['git', '-C', REPO, 'apply', '--whitespace=nowarn', str(d / 'patch.diff')])
    if applied.returncode != 0:
        # the patch was made against an older HEAD: try a 3-way apply
        applied = sh(['git', '-C', REPO, 'apply', '--3way', '--whitespace=nowarn', str(d / 'patch.diff')])
    if applied.returncode != 0:
        print('patch does not apply:', applied.stderr[-500:])
        meta['applies'] = False
        meta_path.write_text(json.dumps(meta, indent=1))
        sh(['git', '-C', REPO, 'checkout', '--', '.'])
        return 2
    try:
        meta['applies'] = True
        meta['files'] = sh(['git', '-C', tree or REPO, 'diff', '--stat']).stdout.strip().splitlines()[:-1]
        meta['demo_on_patched'] = demo_rc(d, tree or REPO)
        for chk in checks:
            ev = ROOT / 'evidence' / f'{chk}.json'
            saved_ev = ev.read_bytes() if ev.exists() else None
            rp = ROOT / 'replays' / chk
            keep = Path(tempfile.mkdtemp(prefix='vf-keep-'))
            if rp.exists():
                shutil.copytree(rp, keep / chk)
            t0 = time.time()
            try:
                env = dict(os.environ, VERIF_REPO=tree) if tree else None
                r = sh([str(ROOT / 'check'), chk, 'quick'], cwd=str(ROOT), env=env)
            finally:
                if saved_ev is not None:
                    ev.write_bytes(saved_ev)
                shutil.rmtree(rp, ignore_errors=True)
                if (keep / chk).exists():
                    shutil.copytree(keep / chk, rp)
                shutil.rmtree(keep, ignore_errors=True)
            fired = r.returncode == 1 and 'VIOLATION' in r.stdout
            last = [ln for ln in r.stdout.strip().splitlines() if not ln.startswith('KNOWN-FINDING')][-1][:200] if r.stdout.strip() else r.stderr[-200:]
            first = next((ln for ln in r.stdout.splitlines() if ln.startswith('first witness:')), '')[:600]
            results[chk] = {'fired': fired, 'rc': r.returncode, 'seconds': round(time.time() - t0), 'summary': last, 'first_witness': first}
            print(f'{pid} patched: {chk} rc={r.returncode} fired={fired} :: {last}')
    finally:
        if tree is None:
            sh(['git', '-C', REPO, 'checkout', '--', '.'])
            # a 3-way apply may leave index entries
            sh(['git', '-C', REPO, 'reset', '-q'])
            sh(['git', '-C', REPO, 'checkout', '--', '.'])
    meta.setdefault('checks', {}).update(results)
    meta['caught_by'] = ', '.join(sorted(c for c, v in meta['checks'].items() if v['fired'])) or 'NOT CAUGHT'
    meta_path.write_text(json.dumps(meta, indent=1))
    clean = not sh(['git', '-C', REPO, 'status', '--porcelain']).stdout.strip()
    print('demo rc original/patched:', meta['demo_on_original'], meta.get('demo_on_patched'), '| /repo clean again:', clean)
    return 0


if __name__ == '__main__':
    sys.exit(main(sys.argv[1:]))
